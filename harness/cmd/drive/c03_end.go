package main

// C03, "ends" leg (hooked in through extra["C03"]): every way an SMTP connection can end other than QUIT / EOF.
//
//   scripted: the REAL session (smtp.Server.startSession through the verif hook) runs on a scripted net.Conn whose Read
//     hands out the dialogue line by line and then fails the way the script says — io.EOF, a net.Error with Timeout()
//     (os.ErrDeadlineExceeded, what a net.Conn returns when the read deadline expires), another network error
//     (*net.OpError ECONNRESET, or a plain error) — at ANY byte offset (between commands, inside a command line, inside
//     DATA, inside the terminator); optionally the client "stalls" once in the middle (one timeout, then the rest of the
//     dialogue) and optionally every reply write fails from the w-th on (client stopped reading / closed its read side).
//     No real time passes; thousands of cases.
//   live: the same on real connections with a short configured Timeout (60-150 ms): net.Pipe clients that go silent
//     between commands, inside a command line, inside DATA, that stall and resume, that stop reading; TCP clients that
//     half-close (CloseWrite) or reset the connection.  The session goroutine must end within the timeouts it is
//     entitled to plus slack.
//   Both: implementation-only oracles FIRST (uncompleted-stores-nothing, last-reply-exact, read/write-deadline-armed,
//   session-goroutine-ends, no-panic), then replies, last reply text and final store against Ibx.Model.Smtp.runEnd /
//   runStall (driver tokens rend= / stall= / budget=).

import (
	"bytes"
	"errors"
	"fmt"
	"io"
	"math/rand"
	"net"
	"os"
	"strconv"
	"strings"
	"sync"
	"syscall"
	"time"

	"github.com/inbucket/inbucket/v3/pkg/message"
	"github.com/inbucket/inbucket/v3/pkg/server/smtp"

	"verif/harness/internal/core"
)

func init() {
	prev := extra["C03"]
	extra["C03"] = func(c *core.Ctx) {
		if prev != nil {
			prev(c)
		}
		c03EndLeg(c)
	}
	// stand-alone (for working on the leg): drive -prop C03END
	register("C03END", func(c *core.Ctx) {
		c.Res.Rule = "C03 ends leg alone"
		c03EndLeg(c)
	})
}

// ---------------------------------------------------------------------------------------------------------------
// the scripted connection (shared with c13_end.go)

type scKind int

const (
	scData scKind = iota
	scTimeout
	scNetErr
	scPlainErr
	scEOF
)

func (k scKind) String() string {
	return [...]string{"data", "timeout", "neterr", "plainerr", "eof"}[k]
}

type scEv struct {
	kind scKind
	data []byte
	once bool // a failure that is returned once; the next Read goes on with the next event (a stall the client recovers from)
}

type scChunk struct {
	after int // number of data events completely handed out when this was written
	data  []byte
}

type pipeLikeAddr struct{}

func (pipeLikeAddr) Network() string { return "pipe" }
func (pipeLikeAddr) String() string  { return "pipe" }

var errPlainRead = errors.New("injected read failure")

type scriptConn struct {
	mu          sync.Mutex
	evs         []scEv
	pos, off    int
	delivered   int // data events completely handed out
	out         []scChunk
	writes      int
	linesOut    int // complete lines written so far
	writeFailAt int // once this many complete lines have been written every further write fails (-1: never)
	timeout     time.Duration
	rdl, wdl    time.Time
	violations  []string
	closed      bool
	readsAfter  int // Read calls after the terminal failure was returned
	terminalHit bool
}

func newScriptConn(evs []scEv, writeFailAt int, timeout time.Duration) *scriptConn {
	return &scriptConn{evs: evs, writeFailAt: writeFailAt, timeout: timeout}
}

func (s *scriptConn) violate(v string) {
	if len(s.violations) < 4 {
		s.violations = append(s.violations, v)
	}
}

func (s *scriptConn) checkDeadline(what string, d time.Time) {
	now := time.Now()
	switch {
	case d.IsZero():
		s.violate(what + " without a deadline")
	case !d.After(now):
		s.violate(what + " with a deadline in the past")
	case d.Sub(now) > s.timeout+2*time.Second:
		s.violate(fmt.Sprintf("%s with a deadline %v ahead (configured timeout %v)", what, d.Sub(now).Round(time.Millisecond), s.timeout))
	case d.Sub(now) < s.timeout-5*time.Second:
		s.violate(fmt.Sprintf("%s with a deadline only %v ahead (configured timeout %v)", what, d.Sub(now).Round(time.Millisecond), s.timeout))
	}
}

func scErr(k scKind) error {
	switch k {
	case scTimeout:
		return os.ErrDeadlineExceeded
	case scNetErr:
		return &net.OpError{Op: "read", Net: "tcp", Err: syscall.ECONNRESET}
	case scPlainErr:
		return errPlainRead
	}
	return io.EOF
}

func (s *scriptConn) Read(p []byte) (int, error) {
	s.mu.Lock()
	defer s.mu.Unlock()
	if s.closed {
		return 0, io.ErrClosedPipe
	}
	s.checkDeadline("Read", s.rdl)
	for {
		if s.pos >= len(s.evs) {
			return 0, io.EOF
		}
		ev := s.evs[s.pos]
		if ev.kind == scData {
			if s.off >= len(ev.data) {
				s.pos++
				s.off = 0
				s.delivered++
				continue
			}
			n := copy(p, ev.data[s.off:])
			s.off += n
			if s.off >= len(ev.data) {
				s.pos++
				s.off = 0
				s.delivered++
			}
			return n, nil
		}
		if ev.once {
			s.pos++
			return 0, scErr(ev.kind)
		}
		if s.terminalHit {
			s.readsAfter++
		}
		s.terminalHit = true
		return 0, scErr(ev.kind)
	}
}

func (s *scriptConn) Write(p []byte) (int, error) {
	s.mu.Lock()
	defer s.mu.Unlock()
	if s.closed {
		return 0, io.ErrClosedPipe
	}
	s.checkDeadline("Write", s.wdl)
	idx := s.writes
	s.writes++
	if s.writeFailAt >= 0 && s.linesOut >= s.writeFailAt {
		if idx%2 == 0 {
			return 0, os.ErrDeadlineExceeded
		}
		return 0, &net.OpError{Op: "write", Net: "tcp", Err: syscall.EPIPE}
	}
	s.out = append(s.out, scChunk{after: s.delivered, data: append([]byte{}, p...)})
	s.linesOut += bytes.Count(p, []byte("\n"))
	return len(p), nil
}

func (s *scriptConn) Close() error {
	s.mu.Lock()
	s.closed = true
	s.mu.Unlock()
	return nil
}
func (s *scriptConn) LocalAddr() net.Addr  { return pipeLikeAddr{} }
func (s *scriptConn) RemoteAddr() net.Addr { return pipeLikeAddr{} }
func (s *scriptConn) SetDeadline(t time.Time) error {
	s.mu.Lock()
	s.rdl, s.wdl = t, t
	s.mu.Unlock()
	return nil
}
func (s *scriptConn) SetReadDeadline(t time.Time) error {
	s.mu.Lock()
	s.rdl = t
	s.mu.Unlock()
	return nil
}
func (s *scriptConn) SetWriteDeadline(t time.Time) error {
	s.mu.Lock()
	s.wdl = t
	s.mu.Unlock()
	return nil
}

func (s *scriptConn) output() []byte {
	s.mu.Lock()
	defer s.mu.Unlock()
	var b []byte
	for _, ch := range s.out {
		b = append(b, ch.data...)
	}
	return b
}

// runWatched runs f (a whole session) and reports a panic or that it did not return in time.
func runWatched(f func(), limit time.Duration) (panicked string, wedged bool, took time.Duration) {
	done := make(chan struct{})
	t0 := time.Now()
	go func() {
		defer close(done)
		defer func() {
			if r := recover(); r != nil {
				panicked = fmt.Sprint(r)
			}
		}()
		f()
	}()
	select {
	case <-done:
	case <-time.After(limit):
		wedged = true
	}
	return panicked, wedged, time.Since(t0)
}

// ---------------------------------------------------------------------------------------------------------------
// SMTP cases

type endCase struct {
	env     *smtpEnv
	d       smtpDialogue
	stream  []byte // the whole dialogue
	cut     int    // bytes handed to the session before the end
	kind    scKind // how the input ends
	stall   int    // -1, or the offset (< cut) after which the client is silent for >= Timeout once
	wfail   int    // -1, or the number of reply lines that can be written
	live    string // "" = scripted, else the live scenario
	timeout time.Duration
}

func (ec *endCase) describe() []string {
	c := []string{fmt.Sprintf("naming=%s maxrcpt=%d maxbytes=%d end=%s cut=%d stall=%d writable-reply-lines=%d live=%q timeout=%v", ec.env.naming, ec.env.maxRcpt, ec.env.maxBytes, ec.kind, ec.cut, ec.stall, ec.wfail, ec.live, ec.timeout),
		fmt.Sprintf("policy=%+v", ec.env.pol)}
	mark := func(off int) string {
		switch {
		case off == ec.stall:
			return "   <-- client silent for >= Timeout here, then goes on"
		}
		return ""
	}
	off := 0
	for _, l := range ec.d.lines {
		if off >= ec.cut {
			break
		}
		t := l
		if off+len(t) > ec.cut {
			t = t[:ec.cut-off]
		}
		s := strconv.Quote(string(t))
		if len(s) > 160 {
			s = s[:160] + fmt.Sprintf("...(%d bytes)", len(t))
		}
		if ec.stall > off && ec.stall < off+len(t) {
			s += fmt.Sprintf("   <-- stall after %d bytes of this line", ec.stall-off)
		}
		c = append(c, fmt.Sprintf("@%d %s%s", off, s, mark(off)))
		off += len(l)
	}
	c = append(c, fmt.Sprintf("@%d <%s>", ec.cut, ec.kind))
	if len(c) > 70 {
		c = append(c[:35], append([]string{"..."}, c[len(c)-30:]...)...)
	}
	return c
}

func (ec *endCase) rend() string {
	switch ec.kind {
	case scTimeout:
		return "timeout"
	case scNetErr, scPlainErr:
		return "neterr"
	}
	return "eof"
}

// events: one data event per (piece of a) line, the optional one-shot stall, the terminal failure
func (ec *endCase) events() []scEv {
	var evs []scEv
	off := 0
	for _, l := range ec.d.lines {
		if off >= ec.cut {
			break
		}
		t := l
		if off+len(t) > ec.cut {
			t = t[:ec.cut-off]
		}
		if ec.stall == off {
			evs = append(evs, scEv{kind: scTimeout, once: true})
		}
		if ec.stall > off && ec.stall < off+len(t) {
			evs = append(evs, scEv{kind: scData, data: t[:ec.stall-off]}, scEv{kind: scTimeout, once: true}, scEv{kind: scData, data: t[ec.stall-off:]})
		} else {
			evs = append(evs, scEv{kind: scData, data: t})
		}
		off += len(l)
	}
	if ec.stall == ec.cut && ec.stall >= 0 {
		evs = append(evs, scEv{kind: scTimeout, once: true})
	}
	return append(evs, scEv{kind: ec.kind})
}

// the model's answer for this case
func (ec *endCase) askModel(st *smtpStack, m *core.Model) string {
	inp := ec.stream[:ec.cut]
	// the oracle tables (regex results, header parses) must cover every line the session can see: the lines of the input,
	// and the two pieces of a line the stall splits
	tbl := append([]byte{}, inp...)
	blocks := ec.d.blocks
	if ec.stall >= 0 {
		tbl = append(tbl, '\n')
		tbl = append(tbl, inp[:ec.stall]...)
		tbl = append(tbl, '\n')
		tbl = append(tbl, inp[ec.stall:]...)
		tbl = append(tbl, '\n')
		// a stall right after "DATA" makes the rest of that line ("\r\n") the first line of the block
		for _, b := range ec.d.blocks {
			blocks = append(blocks, append([]byte("\n"), b...))
		}
	}
	budget := "-"
	if ec.wfail >= 0 {
		budget = strconv.Itoa(ec.wfail)
	}
	line := st.modelLine(tbl, blocks, budget)
	i := strings.LastIndex(line, " inp=")
	line = line[:i] + " inp=" + core.Hex(inp) + " rend=" + ec.rend()
	if ec.live == "half-close" || ec.live == "reset" {
		line = strings.Replace(line, " rhost="+core.HexS("pipe")+" ", " rhost="+core.HexS("127.0.0.1")+" ", 1)
	}
	if ec.stall >= 0 {
		line += " stall=" + strconv.Itoa(ec.stall)
	}
	return m.Ask(line)
}

type wireLine struct {
	code int
	sep  byte
	text string
	raw  string
}

func parseWire(out []byte) (lines []wireLine, bad string) {
	for len(out) > 0 {
		i := bytes.IndexByte(out, '\n')
		if i < 0 {
			return lines, "output does not end with a line end: " + strconv.Quote(string(out))
		}
		raw := string(out[:i+1])
		out = out[i+1:]
		if !strings.HasSuffix(raw, "\r\n") {
			return lines, "reply line not terminated by CRLF: " + strconv.Quote(raw)
		}
		t := strings.TrimSuffix(raw, "\r\n")
		mm := replyLineRE.FindStringSubmatch(t)
		if mm == nil || strings.ContainsAny(t, "\r\n") {
			return lines, "unparsable reply line " + strconv.Quote(raw)
		}
		code, _ := strconv.Atoi(mm[1])
		lines = append(lines, wireLine{code: code, sep: mm[2][0], text: mm[3], raw: t})
	}
	return lines, ""
}

// flatten the model's event tokens (r250, r250x4, S.., F) into one code per reply LINE
func modelReplyLines(ans string) []int {
	var res []int
	for _, t := range strings.Split(ans, " ") {
		if !strings.HasPrefix(t, "r") || strings.Contains(t, "=") {
			continue
		}
		body := t[1:]
		n := 1
		if i := strings.IndexByte(body, 'x'); i >= 0 {
			n, _ = strconv.Atoi(body[i+1:])
			body = body[:i]
		}
		code, err := strconv.Atoi(body)
		if err != nil {
			continue
		}
		for k := 0; k < n; k++ {
			res = append(res, code)
		}
	}
	return res
}

// the last words of a session whose read failed: learnt from the tree under test (smtpCalibrate) — the wording is the implementation's business,
// the oracles ask that the right line is sent exactly once.  Defaults: the pinned tree's.
var (
	smtpIdleText = "221 Idle timeout, bye bye"
	smtpConnText = "221 Connection error, sorry"
)

func smtpCalibrate(c *core.Ctx, env *smtpEnv) {
	for _, k := range []scKind{scTimeout, scNetErr} {
		smtpMu.Lock()
		st, err := env.build()
		smtpMu.Unlock()
		if err != nil {
			return
		}
		conn := newScriptConn([]scEv{{kind: k}}, -1, st.root.SMTP.Timeout)
		panicked, wedged, _ := runWatched(func() { st.srv.VerifServe(1, conn) }, 10*time.Second)
		if panicked != "" || wedged {
			return
		}
		lines, bad := parseWire(conn.output())
		if bad == "" && len(lines) == 2 && lines[1].code == 221 { // greeting, last words
			if k == scTimeout {
				smtpIdleText = lines[1].raw
			} else {
				smtpConnText = lines[1].raw
			}
		}
	}
	c.Note("c03 end leg: last words learnt from the tree under test: time-out %q, other read error %q", smtpIdleText, smtpConnText)
}

// terminator offsets: for each data block of the dialogue, the offset just after its ".\r\n"
func blockEnds(d smtpDialogue) []int {
	var ends []int
	off := 0
	inData := false
	for _, l := range d.lines {
		off += len(l)
		if inData {
			if string(l) == ".\r\n" {
				ends = append(ends, off)
				inData = false
			}
			continue
		}
		cmd, _, ok := harnessParseCmd(strings.TrimRight(string(l), "\r\n"))
		if ok && cmd == "DATA" && strings.TrimRight(string(l), "\r\n") == strings.TrimSpace(strings.TrimRight(string(l), "\r\n")) && len(strings.TrimRight(string(l), "\r\n")) == 4 {
			// generated dialogues put DATA right before its body; a DATA the server refuses has no body in the dialogue
			inData = true
		}
	}
	return ends
}

// endOracles: implementation-only checks on one finished case
func endOracles(c *core.Ctx, ec *endCase, lines []wireLine, badWire string, dump []dumpMsg) {
	cas := ec.describe()
	if badWire != "" {
		c.Fail("reply-well-formed", cas, badWire, "")
	}
	// --- uncompleted-stores-nothing: every stored copy belongs to a data block whose terminator reached the session, and is whole
	if ec.stall < 0 {
		ends := blockEnds(ec.d)
		for _, dm := range dump {
			whole, late := false, -1
			for i, b := range ec.d.blocks {
				if i >= len(ends) || !bytes.HasSuffix(dm.source, b) {
					continue
				}
				if ends[i] <= ec.cut {
					whole = true
				} else {
					late = ends[i]
				}
			}
			switch {
			case whole:
			case late >= 0:
				c.Fail("uncompleted-stores-nothing", cas, fmt.Sprintf("mailbox %q holds message %q although its data block ends at byte %d and the connection ended (%s) after byte %d", dm.mailbox, dm.subject, late, ec.kind, ec.cut), "")
			default:
				c.Fail("uncompleted-stores-nothing", cas, fmt.Sprintf("mailbox %q holds a message (subject %q, %d bytes) whose content is not a complete data block of the dialogue", dm.mailbox, dm.subject, len(dm.source)), "")
			}
		}
	} else {
		terms := bytes.Count(ec.stream[:ec.cut], []byte("\r\n.\r\n"))
		subjects := map[string]bool{}
		for _, dm := range dump {
			subjects[dm.subject] = true
		}
		if len(subjects) > terms {
			c.Fail("uncompleted-stores-nothing", cas, fmt.Sprintf("the store holds messages with %d different subjects although only %d data terminators reached the session", len(subjects), terms), "")
		}
	}
	// --- last-reply-exact (only when every reply could be written)
	if ec.wfail < 0 && len(lines) > 0 {
		last := lines[len(lines)-1]
		quitSeen := false
		for _, l := range lines {
			if l.code == 221 && l.raw != smtpIdleText && l.raw != smtpConnText {
				quitSeen = true
			}
		}
		nIdle, nConn := 0, 0
		for _, l := range lines {
			if l.raw == smtpIdleText {
				nIdle++
			}
			if l.raw == smtpConnText {
				nConn++
			}
		}
		inData := func() bool { // the reply before the last-words position is the 354
			k := len(lines) - 1
			if last.raw == smtpIdleText || last.raw == smtpConnText {
				k--
			}
			return k >= 0 && lines[k].code == 354
		}
		switch {
		case quitSeen:
			if nIdle+nConn > 0 {
				c.Fail("last-reply-exact", cas, "a session that had answered QUIT with 221 sent another 221 afterwards", "")
			}
		case ec.kind == scEOF && ec.stall < 0:
			if nIdle+nConn > 0 {
				c.Fail("last-reply-exact", cas, fmt.Sprintf("the client closed the connection (EOF) and the session said %q", last.raw), "")
			}
		case ec.kind == scTimeout:
			if last.raw != smtpIdleText || nIdle != 1 || nConn != 0 {
				c.Fail("last-reply-exact", cas, fmt.Sprintf("the read deadline expired; the last reply must be exactly %q once, got %q (idle x%d, connection-error x%d)", smtpIdleText, last.raw, nIdle, nConn), "")
			}
		case ec.kind == scNetErr || ec.kind == scPlainErr:
			if ec.stall >= 0 && nIdle == 1 && last.raw == smtpIdleText {
				break // the stall itself ended the session
			}
			if inData() {
				if nConn != 0 || (nIdle != 0 && ec.stall < 0) {
					c.Fail("last-reply-exact", cas, fmt.Sprintf("network error inside the data phase: nothing may follow the 354, got %q", last.raw), "")
				}
			} else if last.raw != smtpConnText || nConn != 1 {
				c.Fail("last-reply-exact", cas, fmt.Sprintf("network error in command mode; the last reply must be exactly %q once, got %q", smtpConnText, last.raw), "")
			}
		}
	}
}

func (ec *endCase) compare(c *core.Ctx, ans string, lines []wireLine, dump string) {
	cas := ec.describe()
	c.Compared(1)
	want := modelReplyLines(ans)
	got := make([]int, len(lines))
	for i, l := range lines {
		got[i] = l.code
	}
	if ec.wfail >= 0 && len(want) > ec.wfail {
		want = want[:ec.wfail]
	}
	if fmt.Sprint(got) != fmt.Sprint(want) {
		c.Diverge("smtp-end-replies", cas, fmt.Sprint(got), fmt.Sprint(want)+"   ["+ans[:min(len(ans), 300)]+"]")
		return
	}
	if bye := fieldOf(ans, "bye"); bye != "-" && ec.wfail < 0 {
		if len(lines) == 0 || lines[len(lines)-1].raw != core.UnHex(bye) {
			lastRaw := ""
			if len(lines) > 0 {
				lastRaw = lines[len(lines)-1].raw
			}
			c.Diverge("smtp-end-last-reply", cas, lastRaw, core.UnHex(bye))
			return
		}
	}
	if wd := fieldOf(ans, "dump"); wd != dump {
		c.Diverge("smtp-end-store", cas, dump, wd)
	}
}

var endProfile = smtpProfile{name: "c03end", namings: allNamings}

func genEndCase(r *rand.Rand) *endCase {
	env := endProfile.randEnv(r)
	g := &smtpGen{r: r, env: env, errRate: 6}
	d := g.dialogue()
	ec := &endCase{env: env, d: d, stall: -1, wfail: -1, timeout: 20 * time.Second}
	for _, l := range d.lines {
		ec.stream = append(ec.stream, l...)
	}
	return ec
}

// pickOffset prefers interesting places: line boundaries, inside command lines, inside data, around terminators
func pickOffset(r *rand.Rand, ec *endCase, max int) int {
	if max <= 0 {
		return 0
	}
	switch r.Intn(5) {
	case 0: // a line boundary
		off, bounds := 0, []int{0}
		for _, l := range ec.d.lines {
			off += len(l)
			if off <= max {
				bounds = append(bounds, off)
			}
		}
		return bounds[r.Intn(len(bounds))]
	case 1: // just before / inside / after a terminator
		ends := blockEnds(ec.d)
		if len(ends) > 0 {
			e := ends[r.Intn(len(ends))] - r.Intn(6)
			if e >= 0 && e <= max {
				return e
			}
		}
	case 2: // right after a command word
		off := 0
		var cand []int
		for _, l := range ec.d.lines {
			if len(l) >= 6 && off+4 <= max {
				cand = append(cand, off+4)
			}
			off += len(l)
		}
		if len(cand) > 0 {
			return cand[r.Intn(len(cand))]
		}
	}
	return r.Intn(max + 1)
}

// no unterminated piece of exactly k*4096 bytes (bufio's documented corner, see Ibx/Model/Line.lean)
func (ec *endCase) avoidBufioCorner() {
	fix := func(off int) int {
		if off < 0 {
			return off
		}
		start := bytes.LastIndexByte(ec.stream[:off], '\n') + 1
		if n := off - start; n > 0 && n%4096 == 0 {
			return off - 1
		}
		return off
	}
	ec.cut = fix(ec.cut)
	if ec.stall >= 0 {
		ec.stall = fix(ec.stall)
		if ec.stall > ec.cut {
			ec.stall = ec.cut
		}
	}
}

func runEndScripted(c *core.Ctx, m *core.Model, r *rand.Rand, idx int) {
	ec := genEndCase(r)
	ec.kind = []scKind{scEOF, scTimeout, scTimeout, scNetErr, scPlainErr}[r.Intn(5)]
	ec.cut = pickOffset(r, ec, len(ec.stream))
	if r.Intn(4) == 0 {
		ec.cut = len(ec.stream) // the whole dialogue, then the end
	}
	if r.Intn(3) == 0 {
		ec.stall = pickOffset(r, ec, ec.cut)
	}
	if r.Intn(4) == 0 {
		ec.wfail = r.Intn(12)
	}
	ec.avoidBufioCorner()
	smtpMu.Lock()
	st, err := ec.env.build()
	smtpMu.Unlock()
	if err != nil {
		c.Note("c03 end leg: stack build failed: %v", err)
		return
	}
	conn := newScriptConn(ec.events(), ec.wfail, st.root.SMTP.Timeout)
	panicked, wedged, _ := runWatched(func() { st.srv.VerifServe(1, conn) }, 10*time.Second)
	cas := ec.describe()
	if panicked != "" {
		c.Fail("no-panic", cas, "SMTP session goroutine panicked: "+panicked, "")
		return
	}
	if wedged {
		c.Fail("session-goroutine-ends", cas, "startSession had not returned 10 s after its read failed ("+ec.kind.String()+")", "")
		return
	}
	for _, v := range conn.violations {
		o := "read-deadline-armed"
		if strings.HasPrefix(v, "Write") {
			o = "write-deadline-armed"
		}
		c.Fail(o, cas, v, "")
	}
	if conn.readsAfter > 1 { // one more read is legitimate: the failure that flushed a partial line is met again by the next read
		c.Fail("session-goroutine-ends", cas, fmt.Sprintf("the session read %d more time(s) from a connection whose read had already failed for good", conn.readsAfter), "")
	}
	if !conn.closed {
		c.Fail("connection-closed", cas, "startSession returned without closing the connection", "")
	}
	lines, bad := parseWire(conn.output())
	dump, dumpMsgs := st.dumpStore()
	endOracles(c, ec, lines, bad, dumpMsgs)
	ans := ec.askModel(st, m)
	ec.compare(c, ans, lines, dump)
	// however that connection ended, the server serves its NEXT client (no input crashes or wedges the SERVER): an ordinary session on the
	// same smtp.Server right afterwards — greeting, HELO, NOOP, RSET, QUIT
	if !st.root.SMTP.ForceTLS {
		in, nerr := pipeSession(func(cn net.Conn) { st.srv.VerifServe(2, cn) }, []byte("HELO next.example\r\nNOOP\r\nRSET\r\nQUIT\r\n"), 10*time.Second)
		nl, nbad := parseWire(in)
		codes := []int{}
		for _, l := range nl {
			codes = append(codes, l.code)
		}
		c.H("c03end:next-session-on-the-same-server")
		if nbad != "" || fmt.Sprint(codes) != "[220 250 250 250 221]" {
			c.Fail("next-session-works", append(append([]string{}, cas...), "then an ordinary session on the same server: HELO next.example, NOOP, RSET, QUIT"),
				fmt.Sprintf("the next client of the same server was answered %v %s (err %v), it is owed 220 250 250 250 221", codes, nbad, nerr), "")
		}
	}
	c.Count(strings.Join(cas, "\n"), ec.cut > 0)
	c.H("c03end:scripted:" + ec.kind.String())
	if ec.stall >= 0 {
		c.H("c03end:scripted:stall")
	}
	if ec.wfail >= 0 {
		c.H("c03end:scripted:write-failure")
	}
	c.H("c03end:end=" + fieldOf(ans, "end"))
	if fieldOf(ans, "bye") != "-" {
		c.H("c03end:last-reply")
	}
	c.H(fmt.Sprintf("c03end:stored-copies:%d", min(len(dumpMsgs), 3)))
	if idx < 2 {
		c.Sample(map[string]interface{}{"leg": "c03end-scripted", "case": cas})
	}
}

// ---------------------------------------------------------------------------------------------------------------
// live connections with a short real Timeout

type liveResult struct {
	out      []byte
	took     time.Duration // from the moment the client went silent / broke the connection to the end of the session
	wedged   bool
	panicked string
	earlyEnd bool // the session ended before the script was through (timing: discard and retry)
}

func (ec *endCase) liveServer(st *smtpStack) *smtp.Server {
	cfg := st.root.SMTP
	cfg.Timeout = ec.timeout
	mgr := &message.StoreManager{AddrPolicy: st.ap, Store: st.store, ExtHost: st.host}
	return smtp.NewServer(cfg, mgr, st.ap, st.host)
}

// playLive: the client writes the dialogue line by line (a goroutine drains the replies), goes silent once at `stall`
// until the session has reacted, and after `cut` bytes does what the scenario says.
func (ec *endCase) playLive(st *smtpStack) liveResult {
	var res liveResult
	srv := ec.liveServer(st)
	var client, server net.Conn
	tcp := ec.live == "half-close" || ec.live == "reset"
	if tcp {
		ln, err := net.Listen("tcp4", "127.0.0.1:0")
		if err != nil {
			res.earlyEnd = true
			return res
		}
		defer ln.Close()
		acc := make(chan net.Conn, 1)
		go func() {
			cn, _ := ln.Accept()
			acc <- cn
		}()
		cl, err := net.Dial("tcp4", ln.Addr().String())
		if err != nil {
			res.earlyEnd = true
			return res
		}
		client, server = cl, <-acc
		if server == nil {
			res.earlyEnd = true
			return res
		}
	} else {
		client, server = net.Pipe()
	}
	done := make(chan struct{})
	go func() {
		defer close(done)
		defer func() {
			if r := recover(); r != nil {
				res.panicked = fmt.Sprint(r)
				server.Close()
			}
		}()
		srv.VerifServe(1, server)
	}()
	var outMu sync.Mutex
	grew := make(chan struct{}, 1)
	readerDone := make(chan struct{})
	maxLines := -1
	if ec.live == "stop-reading" {
		maxLines = ec.wfail
	}
	go func() {
		defer close(readerDone)
		buf := make([]byte, 1<<16)
		for {
			outMu.Lock()
			n := bytes.Count(res.out, []byte("\n"))
			outMu.Unlock()
			if maxLines >= 0 && n >= maxLines {
				return // the client stops reading for good
			}
			k, err := client.Read(buf)
			if k > 0 {
				outMu.Lock()
				res.out = append(res.out, buf[:k]...)
				outMu.Unlock()
				select {
				case grew <- struct{}{}:
				default:
				}
			}
			if err != nil {
				return
			}
		}
	}()
	outLen := func() int {
		outMu.Lock()
		defer outMu.Unlock()
		return len(res.out)
	}
	over := func() bool {
		select {
		case <-done:
			return true
		default:
			return false
		}
	}
	// quiet: no output for d (the session is blocked in its read)
	quiet := func(d time.Duration) {
		for {
			n := outLen()
			select {
			case <-done:
				return
			case <-time.After(d):
			}
			if outLen() == n {
				return
			}
		}
	}
	write := func(b []byte) bool {
		client.SetWriteDeadline(time.Now().Add(4*ec.timeout + 5*time.Second))
		_, err := client.Write(b)
		return err == nil
	}
	off := 0
	wrote := 0
	for _, l := range ec.d.lines {
		if off >= ec.cut || over() {
			break
		}
		t := l
		if off+len(t) > ec.cut {
			t = t[:ec.cut-off]
		}
		lineOff := off
		off += len(l)
		if ec.stall >= lineOff && ec.stall < lineOff+len(t) {
			if k := ec.stall - lineOff; k > 0 {
				if !write(t[:k]) {
					break
				}
				wrote += k
				t = t[k:]
			}
			// silent until the session has reacted to the expired deadline (flushed the partial line and answered, or ended)
			quiet(ec.timeout / 4)
			n := outLen()
			lim := time.After(3*ec.timeout + 2*time.Second)
		wait:
			for outLen() == n && !over() {
				select {
				case <-grew:
				case <-done:
				case <-lim:
					break wait
				}
			}
			time.Sleep(ec.timeout / 8) // a multi-line reply completes; far below the fresh deadline
			if over() {
				break
			}
		}
		if !write(t) {
			break
		}
		wrote += len(t)
	}
	if wrote < ec.cut && !over() && ec.live != "stop-reading" {
		res.earlyEnd = true
	}
	if wrote < ec.cut && ec.stall < 0 && ec.live != "stop-reading" {
		// the session ended before the script was through although nothing in the script makes it end: timing
		res.earlyEnd = true
	}
	silentAt := time.Now()
	switch ec.live {
	case "half-close":
		client.(*net.TCPConn).CloseWrite()
	case "reset":
		quiet(ec.timeout / 4)
		silentAt = time.Now()
		client.(*net.TCPConn).SetLinger(0)
		client.Close()
	case "close", "stop-reading":
		quiet(ec.timeout / 4)
		silentAt = time.Now()
		client.Close()
	}
	limit := 4*ec.timeout + 3*time.Second
	select {
	case <-done:
	case <-time.After(limit):
		res.wedged = true
	}
	res.took = time.Since(silentAt)
	if !res.wedged {
		select {
		case <-readerDone:
		case <-time.After(2 * time.Second):
		}
	}
	client.Close()
	outMu.Lock()
	res.out = append([]byte{}, res.out...)
	outMu.Unlock()
	return res
}

var liveScenarios = []string{"idle", "idle", "idle-partial", "idle-data", "stall-resume", "half-close", "reset", "close", "stop-reading"}

func runEndLive(c *core.Ctx, m *core.Model, r *rand.Rand, idx int) {
	base := genEndCase(r)
	scen := liveScenarios[r.Intn(len(liveScenarios))]
	timeouts := []time.Duration{time.Duration(60+r.Intn(90)) * time.Millisecond, 500 * time.Millisecond, 2 * time.Second}
	base.live = scen
	switch scen {
	case "idle":
		base.kind = scTimeout
		off, bounds := 0, []int{0}
		for _, l := range base.d.lines {
			off += len(l)
			bounds = append(bounds, off)
		}
		base.cut = bounds[r.Intn(len(bounds))]
	case "idle-partial":
		base.kind = scTimeout
		base.cut = pickOffset(r, base, len(base.stream))
	case "idle-data":
		base.kind = scTimeout
		base.cut = pickOffset(r, base, len(base.stream))
		if ends := blockEnds(base.d); len(ends) > 0 {
			base.cut = ends[r.Intn(len(ends))] - 1 - r.Intn(8)
		}
	case "stall-resume":
		base.kind = scTimeout
		base.cut = len(base.stream)
		base.stall = pickOffset(r, base, base.cut)
	case "half-close", "close":
		base.kind = scEOF
		base.cut = pickOffset(r, base, len(base.stream))
	case "reset":
		base.kind = scNetErr
		base.cut = pickOffset(r, base, len(base.stream))
	case "stop-reading":
		base.kind = scEOF
		base.cut = len(base.stream)
		base.wfail = 1 + r.Intn(8)
	}
	if base.cut < 0 {
		base.cut = 0
	}
	base.avoidBufioCorner()
	var lastProblem func()
	for attempt, to := range timeouts {
		ec := *base
		ec.timeout = to
		smtpMu.Lock()
		st, err := ec.env.build()
		smtpMu.Unlock()
		if err != nil {
			c.Note("c03 end leg: stack build failed: %v", err)
			return
		}
		res := ec.playLive(st)
		cas := append(ec.describe(), "scenario="+scen)
		if res.panicked != "" {
			c.Fail("no-panic", cas, "SMTP session goroutine panicked: "+res.panicked, "")
			return
		}
		if res.wedged {
			c.Fail("session-goroutine-ends", cas, fmt.Sprintf("startSession still running %v after the client went silent / away (configured Timeout %v)", res.took.Round(time.Millisecond), ec.timeout), "")
			return
		}
		if res.earlyEnd {
			lastProblem = func() {
				c.Note("c03 end leg (live): case %d discarded, the session ended while the script was still being played (timing)", idx)
				c.H("c03end:live:discarded")
			}
			continue
		}
		// a session is entitled to: one timeout (two when a partial line is flushed first, three with the write deadline of
		// the last words) — plus scheduling slack
		if ec.kind == scTimeout && res.took > 3*ec.timeout+2*time.Second {
			c.Fail("session-goroutine-ends", cas, fmt.Sprintf("the session ended only %v after the client went silent (configured Timeout %v)", res.took.Round(time.Millisecond), ec.timeout), "")
		}
		lines, bad := parseWire(res.out)
		if ec.stall < 0 && len(lines) > 0 && lines[len(lines)-1].raw == smtpIdleText && res.took < ec.timeout-ec.timeout/4 {
			lastProblem = func() {
				c.Fail("idle-timeout-not-early", cas, fmt.Sprintf("the session said %q %v after the client went silent, well before the configured Timeout %v", smtpIdleText, res.took.Round(time.Millisecond), ec.timeout), "")
			}
			continue
		}
		if scen == "reset" || scen == "stop-reading" {
			bad = "" // the tail of the output is legitimately lost / unread
			if i := bytes.LastIndexByte(res.out, '\n'); i >= 0 {
				lines, _ = parseWire(res.out[:i+1])
			} else {
				lines = nil
			}
		}
		dump, dumpMsgs := st.dumpStore()
		ans := ec.askModel(st, m)
		want := modelReplyLines(ans)
		got := make([]int, len(lines))
		for i, l := range lines {
			got[i] = l.code
		}
		prefixOK := len(got) <= len(want)
		for i := 0; prefixOK && i < len(got); i++ {
			prefixOK = got[i] == want[i]
		}
		exact := fmt.Sprint(got) == fmt.Sprint(want)
		agree := false
		switch scen {
		case "reset", "stop-reading", "close":
			agree = prefixOK // replies written after the client went away are lost
		default:
			agree = exact
		}
		storeOK := fieldOf(ans, "dump") == dump
		if scen == "stop-reading" {
			// the model ends the loop after `budget` reply lines; a live client that stops reading lets the reply it was about
			// to read fail too — the store must match the model for that budget or for the budget one reply earlier/later
			storeOK = false
			for _, b := range []int{ec.wfail, ec.wfail - 1, ec.wfail + 1, ec.wfail + 2, ec.wfail + 3, ec.wfail + 4} {
				if b < 0 {
					continue
				}
				e2 := ec
				e2.wfail = b
				if fieldOf(e2.askModel(st, m), "dump") == dump {
					storeOK = true
					break
				}
			}
		}
		if agree && storeOK {
			// the run is accepted: implementation-only oracles on it, then the last words
			ecO := ec
			if scen == "reset" || scen == "stop-reading" || scen == "close" {
				ecO.wfail = 0 // replies are not all observable: skip last-reply-exact
			}
			if scen == "half-close" {
				ecO.kind = scEOF
			}
			endOracles(c, &ecO, lines, bad, dumpMsgs)
			if bye := fieldOf(ans, "bye"); bye != "-" && ecO.wfail < 0 {
				c.Compared(1)
				if len(lines) == 0 || lines[len(lines)-1].raw != core.UnHex(bye) {
					c.Diverge("smtp-end-last-reply", cas, fmt.Sprint(lines), core.UnHex(bye))
				}
			}
			c.Compared(2)
			c.Count(strings.Join(cas, "\n"), true)
			c.H("c03end:live:" + scen)
			if attempt > 0 {
				c.H("c03end:live:needed-longer-timeout")
			}
			c.H("c03end:live-end=" + fieldOf(ans, "end"))
			return
		}
		a, g, w, d1, d2 := ans, got, want, dump, fieldOf(ans, "dump")
		lastProblem = func() {
			if !agree {
				c.Diverge("smtp-end-replies", cas, fmt.Sprint(g), fmt.Sprint(w)+"   ["+a[:min(len(a), 300)]+"]")
			} else {
				c.Diverge("smtp-end-store", cas, d1, d2)
			}
		}
	}
	if lastProblem != nil {
		lastProblem()
	}
}

func c03EndLeg(c *core.Ctx) {
	smtpCalibrate(c, genEndCase(c.SubRng("c03end-calibrate")).env)
	n := c.Scale(6000, 120000)
	workers := 12
	core.Parallel(workers, workers, func(sh int) {
		m := c.NewModel("smtp")
		defer m.Close()
		for i := sh; i < n; i += workers {
			runEndScripted(c, m, c.SubRng(fmt.Sprintf("c03end/%d", i)), i)
		}
	})
	nl := c.Scale(240, 4000)
	lw := 24
	core.Parallel(lw, lw, func(sh int) {
		m := c.NewModel("smtp")
		defer m.Close()
		for i := sh; i < nl; i += lw {
			runEndLive(c, m, c.SubRng(fmt.Sprintf("c03end-live/%d", i)), i)
		}
	})
}
