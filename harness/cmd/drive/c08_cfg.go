package main

// C08 (extra leg): the CONFIGURED byte limit is what the enforcer enforces.  The limit reaches the memory store as the string parameter
// "maxkb" (INBUCKET_STORAGE_PARAMS=maxkb:<n>); whatever decimal spelling the constructor accepts (leading zeros, a sign) must mean n KiB:
// with messages of known size the store must keep everything while the total is <= n*1024 and, once it is exceeded, evict oldest-first
// exactly until it is met again.  Implementation-only oracle (the limit arithmetic of the model is covered by the main C08 profile).

import (
	"bytes"
	"fmt"
	"io"
	"net/mail"
	"strconv"
	"strings"
	"time"

	"github.com/inbucket/inbucket/v3/pkg/config"
	"github.com/inbucket/inbucket/v3/pkg/extension"
	"github.com/inbucket/inbucket/v3/pkg/extension/event"
	"github.com/inbucket/inbucket/v3/pkg/message"
	"github.com/inbucket/inbucket/v3/pkg/storage"
	"github.com/inbucket/inbucket/v3/pkg/storage/mem"

	"verif/harness/internal/core"
)

func init() {
	prev := extra["C08"]
	extra["C08"] = func(c *core.Ctx) {
		if prev != nil {
			prev(c)
		}
		runC08Cfg(c)
	}
}

func runC08Cfg(c *core.Ctx) {
	r := c.SubRng("c08cfg")
	n := c.Scale(60, 1500)
	for i := 0; i < n; i++ {
		kb := []int{1, 2, 3, 7, 8, 9, 10, 11, 12, 16, 17, 20, 31, 64, 100}[r.Intn(15)]
		spell := strconv.Itoa(kb)
		switch r.Intn(5) {
		case 0:
			spell = "0" + spell
		case 1:
			spell = "00" + spell
		case 2:
			spell = "+" + spell
		case 3:
			spell = "+0" + spell
		}
		c.H("c08cfg:spelling:" + map[bool]string{true: "plain", false: "padded-or-signed"}[spell == strconv.Itoa(kb)])
		want, perr := strconv.ParseInt(spell, 10, 64)
		if perr != nil || want != int64(kb) {
			continue
		}
		limit := int64(kb) * 1024
		host := extension.NewHost()
		st, err := mem.New(config.Storage{Params: map[string]string{"maxkb": spell}}, host)
		cas := []string{fmt.Sprintf("mem.New(Params{maxkb:%q})", spell)}
		c.Count("c08cfg", true)
		if err != nil {
			c.Fail("configured-limit-accepted", cas, "a decimal limit was refused: "+err.Error(), "")
			continue
		}
		// sizes: mostly 500..1500, chosen so that the total crosses the limit somewhere in the middle of a message
		type rec struct {
			box, id string
			size    int64
		}
		live := []rec{}
		total := int64(0)
		bad := false
		steps := 6 + int(3*limit/1000)
		if steps > 400 {
			steps = 400
		}
		for k := 0; k < steps && !bad; k++ {
			sz := int64(200 + r.Intn(1300))
			if r.Intn(10) == 0 {
				sz = limit - total // lands exactly on the limit: nothing may be evicted
				if sz <= 0 || sz > 4000 {
					sz = 512
				}
			}
			box := fmt.Sprintf("box%d", r.Intn(3))
			body := bytes.Repeat([]byte{'x'}, int(sz))
			d := &message.Delivery{Meta: event.MessageMetadata{Mailbox: box, From: &mail.Address{Address: "a@b.c"}, To: []*mail.Address{{Address: box + "@d.e"}},
				Date: time.Unix(1700000000+int64(k), 0), Subject: "s"}, Reader: io.NopCloser(bytes.NewReader(body))}
			id, err := st.AddMessage(d)
			cas = append(cas, fmt.Sprintf("AddMessage(%s, %d bytes)", box, sz))
			if err != nil {
				c.Fail("configured-limit-accepted", tailStrs(cas, 40), "AddMessage failed: "+err.Error(), "")
				bad = true
				break
			}
			live = append(live, rec{box, id, sz})
			total += sz
			// expected: evict oldest first while the total exceeds the limit
			for total > limit && len(live) > 0 {
				total -= live[0].size
				live = live[1:]
			}
			// observe
			got := map[string]int64{}
			gotTotal := int64(0)
			st.VisitMailboxes(func(ms []storage.Message) bool {
				for _, m := range ms {
					got[m.Mailbox()+"/"+m.ID()] = m.Size()
					gotTotal += m.Size()
				}
				return true
			})
			exp := []string{}
			okAll := len(got) == len(live)
			for _, l := range live {
				exp = append(exp, l.box+"/"+l.id)
				if got[l.box+"/"+l.id] != l.size {
					okAll = false
				}
			}
			c.Compared(1)
			if !okAll {
				what := "limit-evicts-only-what-is-necessary"
				if gotTotal > limit {
					what = "limit-is-enforced"
				}
				c.Fail(what, tailStrs(cas, 60), fmt.Sprintf("configured maxkb=%q (%d bytes): after these deliveries the store holds %d message(s), %d bytes; oldest-first eviction down to the limit leaves %d message(s) [%s], %d bytes",
					spell, limit, len(got), gotTotal, len(live), strings.Join(exp, " "), total), "")
				bad = true
			}
		}
		if !bad {
			c.H("c08cfg:ok")
		}
	}
}

// tailStrs keeps the first entry (the configuration) and the last n-1 of a case description.
func tailStrs(l []string, n int) []string {
	if len(l) <= n {
		return l
	}
	return append([]string{l[0], "…"}, l[len(l)-n+2:]...)
}
