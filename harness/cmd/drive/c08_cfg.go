package main

// C08 (extra leg): the CONFIGURED byte limit is what the enforcer enforces.  The limit reaches the memory store as the string parameter
// "maxkb" (INBUCKET_STORAGE_PARAMS=maxkb:<n>); whatever decimal spelling the constructor accepts (leading zeros, a sign) must mean n KiB:
// with messages of known size the store must keep everything while the total is <= n*1024 and, once it is exceeded, evict oldest-first
// exactly until it is met again.  Implementation-only oracle (the limit arithmetic of the model is covered by the main C08 profile).

import (
	"os"
	"path/filepath"
	"bytes"
	"fmt"
	"io"
	"net/mail"
	"strconv"
	"strings"
	"time"

	"github.com/inbucket/inbucket/v3/pkg/config"
	"github.com/inbucket/inbucket/v3/pkg/extension"
	"github.com/inbucket/inbucket/v3/pkg/extension/event"
	"github.com/inbucket/inbucket/v3/pkg/message"
	"github.com/inbucket/inbucket/v3/pkg/storage"
	"github.com/inbucket/inbucket/v3/pkg/storage/mem"

	"verif/harness/internal/core"
)

func init() {
	// C08 owns the limit; C07's sentence "listing returns exactly the live messages" depends on it too: a store configured with 10 KiB that
	// works with 8 evicts messages nobody removed
	for _, id := range []string{"C08", "C07"} {
		id := id
		prev := extra[id]
		extra[id] = func(c *core.Ctx) {
			if prev != nil {
				prev(c)
			}
			runC08Cfg(c)
		}
	}
}

func runC08Cfg(c *core.Ctx) {
	r := c.SubRng("c08cfg")
	n := c.Scale(60, 1500)
	for i := 0; i < n; i++ {
		kb := []int{1, 2, 3, 7, 8, 9, 10, 11, 12, 16, 17, 20, 31, 64, 100}[r.Intn(15)]
		spell := strconv.Itoa(kb)
		switch r.Intn(5) {
		case 0:
			spell = "0" + spell
		case 1:
			spell = "00" + spell
		case 2:
			spell = "+" + spell
		case 3:
			spell = "+0" + spell
		}
		c.H("c08cfg:spelling:" + map[bool]string{true: "plain", false: "padded-or-signed"}[spell == strconv.Itoa(kb)])
		want, perr := strconv.ParseInt(spell, 10, 64)
		if perr != nil || want != int64(kb) {
			continue
		}
		limit := int64(kb) * 1024
		host := extension.NewHost()
		st, err := mem.New(config.Storage{Params: map[string]string{"maxkb": spell}}, host)
		cas := []string{fmt.Sprintf("mem.New(Params{maxkb:%q})", spell)}
		c.Count("c08cfg", true)
		if err != nil {
			c.Fail("configured-limit-accepted", cas, "a decimal limit was refused: "+err.Error(), "")
			continue
		}
		// sizes: mostly 500..1500, chosen so that the total crosses the limit somewhere in the middle of a message
		type rec struct {
			box, id string
			size    int64
		}
		live := []rec{}
		total := int64(0)
		bad := false
		steps := 6 + int(3*limit/1000)
		if steps > 400 {
			steps = 400
		}
		for k := 0; k < steps && !bad; k++ {
			sz := int64(200 + r.Intn(1300))
			if r.Intn(10) == 0 {
				sz = limit - total // lands exactly on the limit: nothing may be evicted
				if sz <= 0 || sz > 4000 {
					sz = 512
				}
			}
			box := fmt.Sprintf("box%d", r.Intn(3))
			body := bytes.Repeat([]byte{'x'}, int(sz))
			d := &message.Delivery{Meta: event.MessageMetadata{Mailbox: box, From: &mail.Address{Address: "a@b.c"}, To: []*mail.Address{{Address: box + "@d.e"}},
				Date: time.Unix(1700000000+int64(k), 0), Subject: "s"}, Reader: io.NopCloser(bytes.NewReader(body))}
			id, err := st.AddMessage(d)
			cas = append(cas, fmt.Sprintf("AddMessage(%s, %d bytes)", box, sz))
			if err != nil {
				c.Fail("configured-limit-accepted", tailStrs(cas, 40), "AddMessage failed: "+err.Error(), "")
				bad = true
				break
			}
			live = append(live, rec{box, id, sz})
			total += sz
			// expected: evict oldest first while the total exceeds the limit
			for total > limit && len(live) > 0 {
				total -= live[0].size
				live = live[1:]
			}
			// observe
			got := map[string]int64{}
			gotTotal := int64(0)
			st.VisitMailboxes(func(ms []storage.Message) bool {
				for _, m := range ms {
					got[m.Mailbox()+"/"+m.ID()] = m.Size()
					gotTotal += m.Size()
				}
				return true
			})
			exp := []string{}
			okAll := len(got) == len(live)
			for _, l := range live {
				exp = append(exp, l.box+"/"+l.id)
				if got[l.box+"/"+l.id] != l.size {
					okAll = false
				}
			}
			c.Compared(1)
			if !okAll {
				what := "limit-evicts-only-what-is-necessary"
				if gotTotal > limit {
					what = "limit-is-enforced"
				}
				c.Fail(what, tailStrs(cas, 60), fmt.Sprintf("configured maxkb=%q (%d bytes): after these deliveries the store holds %d message(s), %d bytes; oldest-first eviction down to the limit leaves %d message(s) [%s], %d bytes",
					spell, limit, len(got), gotTotal, len(live), strings.Join(exp, " "), total), "")
				bad = true
			}
		}
		if !bad {
			c.H("c08cfg:ok")
		}
	}
}

// tailStrs keeps the first entry (the configuration) and the last n-1 of a case description.
func tailStrs(l []string, n int) []string {
	if len(l) <= n {
		return l
	}
	return append([]string{l[0], "…"}, l[len(l)-n+2:]...)
}

// ---------------------------------------------------------------------------------------------------------------
// C08 (extra leg, implementation only): a cap that is LOWERED between two runs of the server.  A file store filled under a high (or no) cap and
// reopened under a lower one holds mailboxes far above the new cap; the next delivery to such a mailbox has to evict several messages at
// once: afterwards the mailbox holds exactly its `cap` most recent messages (the new one last), the evicted ones are the oldest, each with
// one `deleted` event, oldest first.

func init() {
	prev := extra["C08"]
	extra["C08"] = func(c *core.Ctx) {
		if prev != nil {
			prev(c)
		}
		runC08LoweredCap(c)
	}
}

func runC08LoweredCap(c *core.Ctx) {
	r := c.SubRng("c08-lowered-cap")
	n := c.Scale(40, 800)
	for i := 0; i < n; i++ {
		dir := filepath.Join(c.Workdir, fmt.Sprintf("c08-lowered-%d-%d", os.Getpid(), i))
		os.RemoveAll(dir)
		high := []int{0, 0, 12, 20}[r.Intn(4)]
		b, err := newBackend("file", high, 0, dir)
		if err != nil {
			c.Fail("setup", nil, err.Error(), "")
			return
		}
		box := []string{"lowered", "Lowered@example.com", "x y"}[r.Intn(3)]
		have := 2 + r.Intn(9)
		var ids []string
		for k := 0; k < have; k++ {
			id, err := b.st.AddMessage(c09Delivery(box, k, 30+r.Intn(60), time.Unix(1700000000+int64(k), 0)))
			if err != nil {
				c.Fail("setup", nil, err.Error(), "")
				return
			}
			ids = append(ids, id)
		}
		low := 1 + r.Intn(have) // 1 .. have: at the new cap or above it
		trace := []string{fmt.Sprintf("file store: %d messages delivered to %q under cap %d; store reopened with cap %d; one more delivery", have, box, high, low)}
		b.cfg.MailboxMsgCap = low
		if err := b.reopen(); err != nil {
			c.Fail("setup", trace, "reopen: "+err.Error(), "")
			return
		}
		b.mu.Lock()
		b.deleted = nil
		b.mu.Unlock()
		newID, err := b.st.AddMessage(c09Delivery(box, 99, 40, time.Unix(1700001000, 0)))
		if err != nil {
			c.Fail("fits-then-retrievable", trace, "AddMessage under the lowered cap: "+err.Error(), "")
			os.RemoveAll(dir)
			continue
		}
		all := append(append([]string{}, ids...), newID)
		want := all[len(all)-low:]
		gone := all[:len(all)-low]
		// events are asynchronous: wait for as many as expected (bounded)
		var ev []string
		for deadline := time.Now().Add(3 * time.Second); ; time.Sleep(time.Millisecond) {
			b.mu.Lock()
			ev = append([]string{}, b.deleted...)
			b.mu.Unlock()
			if len(ev) >= len(gone) || time.Now().After(deadline) {
				break
			}
		}
		time.Sleep(2 * time.Millisecond)
		b.mu.Lock()
		ev = append([]string{}, b.deleted...)
		b.mu.Unlock()
		ms, err := b.st.GetMessages(box)
		if err != nil {
			c.Fail("listing-works", trace, err.Error(), "")
			os.RemoveAll(dir)
			continue
		}
		got := []string{}
		for _, m := range ms {
			got = append(got, m.ID())
		}
		c.Compared(2)
		if strings.Join(got, ",") != strings.Join(want, ",") {
			o := "keeps-most-recent"
			if len(got) > low {
				o = "cap-bound"
			}
			c.Fail(o, trace, fmt.Sprintf("the mailbox lists %v; its %d most recent messages are %v", got, low, want), "")
		}
		evIDs := []string{}
		for _, e := range ev {
			evIDs = append(evIDs, e[strings.LastIndex(e, "/")+1:])
		}
		if strings.Join(evIDs, ",") != strings.Join(gone, ",") {
			c.Fail("evicts-oldest-first-with-one-event-each", trace, fmt.Sprintf("deleted events for %v; the evicted messages, oldest first, are %v", evIDs, gone), "")
		}
		if m, err := b.st.GetMessage(box, newID); err != nil || m == nil {
			c.Fail("fits-then-retrievable", trace, fmt.Sprintf("the message just delivered (%s) cannot be fetched: %v", newID, err), "")
		}
		c.H(fmt.Sprintf("lowered-cap:evicts=%s", bucketN(len(gone))))
		c.Count(fmt.Sprintf("lowered-%d-%d-%d", have, high, low), len(gone) > 1)
		os.RemoveAll(dir)
	}
}
