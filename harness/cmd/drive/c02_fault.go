package main

// C02 leg "content under storage faults" (implementation only).
//
// "The source of a stored message, as returned by the REST source endpoint, the web UI source endpoint, POP3 RETR and the store itself, is the
// server's trace headers followed by exactly the bytes the client transmitted … with nothing lost, added, reordered or truncated … the reported
// size equals the length of the stored source" is a statement about EVERY message a mailbox holds — also about one that was stored while the file
// system refused a call of the file store, once or for good, before, in the middle of or after the copy of the message (a full disk, a quota, a
// directory pulled away by a neighbour's purge, an index that cannot be replaced).  Whatever the store, the manager and the session do about such a
// failure (give up with 451 — the code as it is — or try again), what the mailbox lists afterwards must be whole messages.
//
// Per scenario: one fresh mailbox of the real stack's file store (the stack of c02e2e.go: real SMTP session, StoreManager, file store, REST, web UI,
// POP3), one to three transactions of a real SMTP session each, bodies from a few bytes to several hundred KiB (beyond bufio's 4 KiB and io.Copy's
// 32 KiB).  For a transaction with a fault plan the verif step hook of pkg/storage/file — called immediately before every file-system mutation —
// obstructs the call that the k-th hook call announces (k drawn; if that call cannot be obstructed, the next one that can):
//     mkdirall     refused: a regular file where the first missing directory would be created
//     create-raw   refused: a directory in place of <id>.raw      | no-space: <id>.raw is a symlink to /dev/full (the create succeeds, the WRITES fail:
//                                                                    in the copy for a body beyond the buffers, in the flush for a small one)
//     create-tmp   refused: a directory in place of index.gob.tmp | no-space: index.gob.tmp is a symlink to /dev/full (the index flush fails AFTER the
//                                                                    whole source has been consumed and <id>.raw closed)
//     rename       refused: index.gob.tmp moved aside (ENOENT)
// The obstruction is removed at the next hook call (a transient fault) or re-applied at every later call of the same step of the transaction (a
// persistent one), and removed when the session has ended.
//
// Oracles (never consult a model; judged after EVERY transaction, faulty or not, on every message the mailbox lists):
//   stored-source-is-trace-plus-transmitted   the store's Source() of a listed message is the two trace lines followed by exactly the (LF-normalised)
//                                             bytes of ONE of the DATA blocks transmitted to this mailbox
//   size-is-length                            Size(), the REST listing's size and POP3's octet count are the length of that source
//   interfaces-agree                          REST source = web-UI source = Source(); POP3 RETR decodes to Source() with CRLF line ends
//   acknowledged-is-stored-whole              a transaction answered 250 added exactly one listed message holding ITS block; one answered 4xx/5xx none
//   data-gets-one-reply                       the end-of-data line is answered 250 or 4xx/5xx and the QUIT behind it 221

import (
	"bytes"
	"encoding/json"
	"fmt"
	"io"
	"math/rand"
	"net"
	"os"
	"path/filepath"
	"strings"
	"sync/atomic"
	"time"

	"github.com/inbucket/inbucket/v3/pkg/storage"
	"github.com/inbucket/inbucket/v3/pkg/storage/file"

	"verif/harness/internal/core"
)

func init() {
	register("C02FLT", func(c *core.Ctx) { // the leg alone, for the builder's use
		c.Res.Rule = "the storage-fault leg of C02 alone"
		st, err := newC02Stack(c.Workdir)
		if err != nil {
			c.Diverge("e2e-setup", nil, err.Error(), "-")
			return
		}
		defer st.http.Close()
		c02FaultOnStack(c, st)
	})
}

type c02FaultPlan struct {
	at     int    // index of the hook call (within the transaction) from which on the first obstructable call is obstructed
	kind   string // "refuse" | "nospace"
	sticky bool   // re-applied at every later call of the same step of this transaction
}

type c02FaultInject struct {
	plan     *c02FaultPlan
	k        int
	steps    []string
	undo     func()
	step     string // the step that was obstructed (sticky: obstruct it again)
	injected []string
	devFull  bool
}

func (in *c02FaultInject) obstruct(step, path string) bool {
	switch step {
	case "mkdirall":
		if in.plan.kind != "refuse" {
			return false
		}
		p := path
		for {
			if _, err := os.Stat(filepath.Dir(p)); err == nil {
				break
			}
			p = filepath.Dir(p)
		}
		if os.WriteFile(p, nil, 0o660) != nil {
			return false
		}
		in.undo = func() { os.Remove(p) }
		return true
	case "create-raw", "create-tmp":
		if in.plan.kind == "nospace" {
			if !in.devFull {
				return false
			}
			var keep []byte
			had := false
			if fi, err := os.Lstat(path); err == nil && fi.Mode().IsRegular() {
				keep, _ = os.ReadFile(path)
				had = true
				os.Remove(path)
			}
			if os.Symlink("/dev/full", path) != nil {
				return false
			}
			in.undo = func() {
				if fi, err := os.Lstat(path); err == nil && fi.Mode()&os.ModeSymlink != 0 {
					os.Remove(path)
					if had {
						os.WriteFile(path, keep, 0o660)
					}
				}
			}
			return true
		}
		var keep []byte
		had := false
		if fi, err := os.Lstat(path); err == nil && fi.Mode().IsRegular() {
			keep, _ = os.ReadFile(path)
			had = true
			os.Remove(path)
		}
		if os.Mkdir(path, 0o770) != nil {
			return false
		}
		in.undo = func() {
			os.Remove(path)
			if had {
				os.WriteFile(path, keep, 0o660)
			}
		}
		return true
	case "rename":
		if in.plan.kind != "refuse" {
			return false
		}
		tmp, side := path+".tmp", path+".tmp.c02fault-aside"
		if os.Rename(tmp, side) != nil {
			return false
		}
		in.undo = func() { os.Rename(side, tmp) }
		return true
	}
	return false
}

func (in *c02FaultInject) hook(step, path string) {
	if in.undo != nil {
		in.undo()
		in.undo = nil
	}
	k := in.k
	in.k++
	in.steps = append(in.steps, step)
	if in.plan == nil || k < in.plan.at {
		return
	}
	if in.step != "" && !(in.plan.sticky && step == in.step) {
		return
	}
	if in.obstruct(step, path) {
		in.step = step
		in.injected = append(in.injected, fmt.Sprintf("%d:%s", k, step))
	}
}

func (in *c02FaultInject) finish() {
	if in.undo != nil {
		in.undo()
		in.undo = nil
	}
}

// c02FaultBody: a small header block and a body whose every line is recognisable (so that a stored tail tells where it starts); some bodies carry
// the byte patterns of the other legs (leading dots, bare CR/LF, 8-bit).
func c02FaultBody(r *rand.Rand, tag string) []byte {
	var b bytes.Buffer
	fmt.Fprintf(&b, "Subject: %s\r\nFrom: a@b.test\r\n\r\n", tag)
	var size int
	switch r.Intn(6) {
	case 0:
		size = r.Intn(200)
	case 1:
		size = 3000 + r.Intn(3000) // around bufio's 4096
	case 2:
		size = 30000 + r.Intn(6000) // around io.Copy's 32 KiB
	case 3:
		size = 60000 + r.Intn(10000)
	case 4:
		size = 100000 + r.Intn(500000)
	default:
		size = r.Intn(20000)
	}
	if r.Intn(4) == 0 {
		b.Write(c02GenBody(r, 4096))
		b.WriteString("\r\n")
	}
	for i := 0; b.Len() < size; i++ {
		if r.Intn(40) == 0 {
			b.WriteString(".")
		}
		fmt.Fprintf(&b, "%s line %07d %s\r\n", tag, i, strings.Repeat("x", r.Intn(60)))
	}
	return b.Bytes()
}

func readSource(m storage.Message) ([]byte, error) {
	rd, err := m.Source()
	if err != nil {
		return nil, err
	}
	defer rd.Close()
	return io.ReadAll(rd)
}

func c02FaultOnStack(c *core.Ctx, st *c02Stack) {
	r := c.SubRng("c02-fault")
	n := c.Scale(160, 3000)
	devFull := false
	if fi, err := os.Stat("/dev/full"); err == nil && fi.Mode()&os.ModeCharDevice != 0 {
		devFull = true
	}
	quitLine := "+OK We will process your deletes\r\n"
	for idx := 0; idx < n; idx++ {
		mb := fmt.Sprintf("fc02flt%ds%d", idx, c.Seed)
		var trace []string
		sent := map[string][]byte{} // tag -> the source the mailbox should hold for it, time stamp masked
		listedTags := map[string]int{}
		ok := true
		fail := func(oracle, detail string) {
			c.Fail(oracle, append([]string{"mailbox=" + mb + " (file store)"}, trace...), detail, "")
			ok = false
		}
		prefix := tracePrefix(mb)
		faults := 0
		for t, nt := 0, 1+r.Intn(3); t < nt && ok; t++ {
			tag := fmt.Sprintf("flt-%d-%d", idx, t)
			body := c02FaultBody(r, tag)
			var plan *c02FaultPlan
			if r.Intn(5) != 0 {
				plan = &c02FaultPlan{at: r.Intn(9), kind: []string{"refuse", "nospace"}[r.Intn(2)], sticky: r.Intn(3) == 0}
				if t > 0 && r.Intn(2) == 0 {
					plan.at = 1 + r.Intn(8) // the mailbox directory exists: call 0 is create-raw
				}
			}
			in := &c02FaultInject{plan: plan, devFull: devFull}
			want := append(append([]byte(prefix), c02Mask...), "\r\n"...)
			want = append(want, refLFNorm(body)...)
			sent[tag] = want
			var out bytes.Buffer
			fmt.Fprintf(&out, "HELO %s\r\nMAIL FROM:<%s>\r\nRCPT TO:<%s@%s>\r\nDATA\r\n", c02HeloFor(mb), c02Sender, mb, c02Domain)
			out.Write(refDataEncode(body))
			out.WriteString("QUIT\r\n")
			id := int(atomic.AddInt64(&st.sid, 1))
			file.VerifStepHook = in.hook
			raw, err := pipeSession(func(cn net.Conn) { st.smtp.VerifC02Session(id, cn) }, out.Bytes(), 60*time.Second)
			file.VerifStepHook = nil
			in.finish()
			replies := strings.Split(strings.TrimSuffix(string(raw), "\r\n"), "\r\n")
			desc := "no fault"
			if plan != nil {
				desc = fmt.Sprintf("fault plan: from file-system call %d of the delivery on, the first call that can be obstructed is made to fail (%s, %s)", plan.at, plan.kind,
					map[bool]string{false: "once: the obstruction is gone at the next call", true: "every later call of the same step fails too"}[plan.sticky])
			}
			trace = append(trace, fmt.Sprintf("transaction %d: SMTP session HELO, MAIL, RCPT <%s@%s>, DATA, %d-byte message %q, QUIT; %s", t+1, mb, c02Domain, len(body), tag, desc),
				fmt.Sprintf("   file-system calls of the store: %s; obstructed: %v", strings.Join(in.steps, " "), in.injected),
				fmt.Sprintf("   replies: %q", replies))
			if len(in.injected) > 0 {
				faults++
			}
			if err != nil || len(replies) < 7 || !strings.HasPrefix(replies[4], "354") {
				fail("data-gets-one-reply", fmt.Sprintf("session error %v; replies %q", err, replies))
				break
			}
			acked := strings.HasPrefix(replies[5], "250")
			if !(acked || replies[5][0] == '4' || replies[5][0] == '5') || len(replies) != 7 || !strings.HasPrefix(replies[6], "221") {
				fail("data-gets-one-reply", fmt.Sprintf("the end-of-data line and the QUIT behind it were answered %q", replies[5:]))
				break
			}
			step := "none"
			if len(in.injected) > 0 {
				step = in.step + ":" + plan.kind + map[bool]string{false: ":once", true: ":persistent"}[plan.sticky]
			}
			c.H(fmt.Sprintf("fault-leg:%s:%s", step, replies[5][:3]))
			// ---- what the mailbox lists now
			msgs, err := st.store.GetMessages(mb)
			if err != nil {
				fail("stored-source-is-trace-plus-transmitted", fmt.Sprintf("GetMessages(%q) after the transaction: %v", mb, err))
				break
			}
			code, lst, herr := st.httpGet("/api/v1/mailbox/" + mb)
			var hdrs []struct {
				ID   string `json:"id"`
				Size int64  `json:"size"`
			}
			if herr != nil || code != 200 || json.Unmarshal(lst, &hdrs) != nil || len(hdrs) != len(msgs) {
				fail("interfaces-agree", fmt.Sprintf("REST listing: status %d err %v, %d entries, the store lists %d", code, herr, len(hdrs), len(msgs)))
				break
			}
			now := map[string]int{}
			for i, m := range msgs {
				c.Compared(5)
				src, err := readSource(m)
				if err != nil {
					fail("stored-source-is-trace-plus-transmitted", fmt.Sprintf("listed message %s: Source(): %v", m.ID(), err))
					break
				}
				msrc, okTS := maskTS(src, len(prefix))
				which := ""
				for tg, w := range sent {
					if okTS && bytes.Equal(msrc, w) {
						which = tg
					}
				}
				if which == "" {
					d := fmt.Sprintf("listed message %s (%d bytes) is not the trace headers followed by the bytes of any transmitted message", m.ID(), len(src))
					if !bytes.HasPrefix(src, []byte(prefix)) {
						d += "; it does not begin with the trace headers"
					}
					for tg, w := range sent {
						if len(src) > 0 && bytes.HasSuffix(w, src) {
							d += fmt.Sprintf("; it is the last %d of the %d bytes of message %q", len(src), len(w), tg)
						}
					}
					fail("stored-source-is-trace-plus-transmitted", d+"; it begins "+clip(fmt.Sprintf("%q", src), 160))
					break
				}
				now[which]++
				if m.Size() != int64(len(src)) || hdrs[i].Size != int64(len(src)) {
					fail("size-is-length", fmt.Sprintf("message %s: Size() = %d, REST listing size = %d, the source has %d bytes", m.ID(), m.Size(), hdrs[i].Size, len(src)))
					break
				}
				for _, p := range []string{"/api/v1/mailbox/" + mb + "/" + m.ID() + "/source", "/serve/mailbox/" + mb + "/" + m.ID() + "/source"} {
					code, b, err := st.httpGet(p)
					if err != nil || code != 200 || !bytes.Equal(b, src) {
						fail("interfaces-agree", fmt.Sprintf("GET %s: status %d err %v, %d bytes; Source() has %d bytes", p, code, err, len(b), len(src)))
						break
					}
				}
				if !ok {
					break
				}
				praw, err := st.pop3Run(fmt.Sprintf("USER %s\r\nPASS x\r\nRETR %d\r\nQUIT\r\n", mb, i+1))
				rest := praw
				var l string
				okl := err == nil
				for q := 0; q < 4 && okl; q++ {
					l, rest, okl = cutLine(rest)
				}
				if !okl || !bytes.HasSuffix(rest, []byte(quitLine)) {
					fail("interfaces-agree", fmt.Sprintf("POP3 USER/PASS/RETR %d/QUIT: error %v, dialogue %s", i+1, err, clip(fmt.Sprintf("%q", praw), 300)))
					break
				}
				if l != fmt.Sprintf("+OK %d bytes follows", len(src)) {
					fail("size-is-length", fmt.Sprintf("POP3 RETR %d announces %q, the source has %d bytes", i+1, l, len(src)))
					break
				}
				dec, after, okd := refPop3Decode(rest[:len(rest)-len(quitLine)])
				if !okd || len(after) != 0 || !bytes.Equal(dec, refCRLF(src)) {
					fail("interfaces-agree", fmt.Sprintf("POP3 RETR %d decodes to %d bytes (well-terminated: %v), Source() with CRLF line ends has %d", i+1, len(dec), okd && len(after) == 0, len(refCRLF(src))))
					break
				}
			}
			if !ok {
				break
			}
			for tg := range sent {
				d := now[tg] - listedTags[tg]
				switch {
				case tg == tag && acked && d != 1:
					fail("acknowledged-is-stored-whole", fmt.Sprintf("transaction %d was answered %q; the mailbox now lists %d whole copies of its message (before: %d)", t+1, replies[5], now[tg], listedTags[tg]))
				case tg == tag && !acked && d != 0:
					fail("acknowledged-is-stored-whole", fmt.Sprintf("transaction %d was answered %q; yet the mailbox now lists %d copies of its message", t+1, replies[5], now[tg]))
				case tg != tag && d != 0:
					fail("acknowledged-is-stored-whole", fmt.Sprintf("transaction %d changed the number of listed copies of message %q from %d to %d", t+1, tg, listedTags[tg], now[tg]))
				}
			}
			listedTags = now
		}
		c.Count(fmt.Sprintf("c02-fault|%d|%s", idx, strings.Join(trace, "|")), faults > 0)
		_ = st.store.PurgeMessages(mb)
		if !ok && c.Enough() {
			return
		}
	}
}
