package main

// C03, TLS leg (hooked in through extra["C03"]): STARTTLS, the EHLO capability line and ForceTLS of the REAL smtp.Server.
//
//   A self-signed ECDSA certificate is generated at run time (crypto/x509, PEM files in the scratch directory); servers are
//   built with TLSEnabled (some with ForceTLS); the client is a real crypto/tls client (InsecureSkipVerify).
//     dialogue    greeting [+ a whole generated dialogue] + STARTTLS in the clear, real handshake, a generated dialogue
//                 inside TLS; replies and final store against the model (`run … tls=1`: the command stream is what was sent
//                 in the clear followed by what was sent inside TLS)
//     inject      bytes glued behind STARTTLS — in the SAME write (the old textproto reader has them buffered: they are
//                 dropped), in a LATER write (they reach the handshake: it fails), more than the reader's 4096-byte buffer
//                 (the overflow reaches the handshake) — against `runWire` (driver op `wire`, bufn = what was buffered), and
//                 against a CONTROL session on an identical fresh stack that never sent the glued bytes
//     advert      EHLO then STARTTLS on servers without TLS, with TLS before and after the switch, under ForceTLS
//     force       ForceTLS through the real Start() (tls.Listen on loopback): a plaintext client, a TLS client
//   Implementation-only oracles first: greeting-needed-after-starttls, starttls-stores-nothing, helo-name-after-starttls,
//   starttls-twice-454, ehlo-advert-matches-acceptance, starttls-no-plaintext-injection, forcetls-plaintext-gets-nothing,
//   forcetls-tls-session-normal, no-panic, no-wedge.

import (
	"bufio"
	"bytes"
	"context"
	"crypto/ecdsa"
	"crypto/elliptic"
	crand "crypto/rand"
	"crypto/tls"
	"crypto/x509"
	"crypto/x509/pkix"
	"encoding/pem"
	"fmt"
	"math/big"
	"math/rand"
	"net"
	"os"
	"path/filepath"
	"strconv"
	"strings"
	"sync"
	"time"

	"verif/harness/internal/core"
)

func init() {
	prev := extra["C03"]
	extra["C03"] = func(c *core.Ctx) {
		if prev != nil {
			prev(c)
		}
		c03TlsLeg(c)
	}
	// stand-alone (for working on the leg): drive -prop C03TLS
	register("C03TLS", func(c *core.Ctx) {
		c.Res.Rule = "C03 TLS leg alone"
		c03TlsLeg(c)
	})
}

// ---------------------------------------------------------------------------------------------------------------
// certificate (shared with c13_tls.go and c02_tls.go)

var (
	tlsCertOnce         sync.Once
	tlsCertPath, tlsKey string
	tlsCertErr          error
)

// tlsCertFiles writes a fresh self-signed ECDSA P-256 certificate and its key as PEM files and returns their paths.
func tlsCertFiles(c *core.Ctx) (string, string, error) {
	tlsCertOnce.Do(func() {
		dir := c.Workdir
		if dir == "" {
			dir, tlsCertErr = os.MkdirTemp("", "verif-tls")
			if tlsCertErr != nil {
				return
			}
		}
		key, err := ecdsa.GenerateKey(elliptic.P256(), crand.Reader)
		if err != nil {
			tlsCertErr = err
			return
		}
		tmpl := &x509.Certificate{SerialNumber: big.NewInt(1), Subject: pkix.Name{CommonName: "inbucket.test"},
			NotBefore: time.Now().Add(-time.Hour), NotAfter: time.Now().Add(48 * time.Hour),
			KeyUsage: x509.KeyUsageDigitalSignature, ExtKeyUsage: []x509.ExtKeyUsage{x509.ExtKeyUsageServerAuth}, DNSNames: []string{"inbucket.test"}}
		der, err := x509.CreateCertificate(crand.Reader, tmpl, tmpl, &key.PublicKey, key)
		if err != nil {
			tlsCertErr = err
			return
		}
		kb, err := x509.MarshalECPrivateKey(key)
		if err != nil {
			tlsCertErr = err
			return
		}
		tlsCertPath, tlsKey = filepath.Join(dir, "verif-tls-cert.pem"), filepath.Join(dir, "verif-tls-key.pem")
		if tlsCertErr = os.WriteFile(tlsCertPath, pem.EncodeToMemory(&pem.Block{Type: "CERTIFICATE", Bytes: der}), 0o600); tlsCertErr != nil {
			return
		}
		tlsCertErr = os.WriteFile(tlsKey, pem.EncodeToMemory(&pem.Block{Type: "EC PRIVATE KEY", Bytes: kb}), 0o600)
	})
	return tlsCertPath, tlsKey, tlsCertErr
}

var tlsClientCfg = &tls.Config{InsecureSkipVerify: true, ServerName: "inbucket.test"}

// ---------------------------------------------------------------------------------------------------------------
// a synchronous line client that can switch to TLS in mid-connection

const tlsStepLimit = 5 * time.Second

type lineClient struct {
	raw  net.Conn
	conn net.Conn
	br   *bufio.Reader
}

func newLineClient(conn net.Conn) *lineClient {
	return &lineClient{raw: conn, conn: conn, br: bufio.NewReader(conn)}
}

func (lc *lineClient) write(b []byte) error {
	lc.conn.SetWriteDeadline(time.Now().Add(tlsStepLimit))
	_, err := lc.conn.Write(b)
	return err
}

// readLine returns one line without its line end; err != nil when the connection ended / nothing came in time.
func (lc *lineClient) readLine() (string, error) {
	lc.conn.SetReadDeadline(time.Now().Add(tlsStepLimit))
	l, err := lc.br.ReadString('\n')
	if err != nil {
		return l, err
	}
	return strings.TrimRight(l, "\r\n"), nil
}

// smtpReply reads one (possibly multi-line) SMTP reply.
func (lc *lineClient) smtpReply() (smtpReply, error) {
	cur := smtpReply{code: -1}
	for {
		l, err := lc.readLine()
		if err != nil {
			return cur, err
		}
		m := replyLineRE.FindStringSubmatch(l)
		if m == nil {
			return smtpReply{code: -1, bad: "unparsable reply line " + strconv.Quote(l)}, nil
		}
		code, _ := strconv.Atoi(m[1])
		if cur.code != -1 && cur.code != code {
			cur.bad = "multi-line reply with differing codes"
		}
		cur.code = code
		cur.lines = append(cur.lines, m[3])
		if m[2] == " " {
			return cur, nil
		}
	}
}

// handshake performs the client side of the TLS handshake on the raw connection and switches reading / writing to it.
func (lc *lineClient) handshake() error {
	tc := tls.Client(lc.raw, tlsClientCfg)
	tc.SetDeadline(time.Now().Add(tlsStepLimit))
	if err := tc.Handshake(); err != nil {
		return err
	}
	tc.SetDeadline(time.Time{})
	lc.conn = tc
	lc.br = bufio.NewReader(tc)
	return nil
}

func (lc *lineClient) close() {
	lc.conn.SetDeadline(time.Now().Add(time.Second))
	lc.conn.Close()
	if lc.conn != lc.raw {
		lc.raw.Close()
	}
}

// ---------------------------------------------------------------------------------------------------------------
// playing a dialogue (lock-step) with an optional switch

type tlsTranscript struct {
	replies   []smtpReply
	lineReply []int // per line of plain ++ inner: index into replies, -1 none
	phase     []int // per reply: 0 = in the clear, 1 = inside TLS
	hsErr     error
	ended     string // why the client stopped early ("" = played everything)
	panicked  string
	wedged    bool
	midCount  int // number of stored messages right after the handshake
	preCount  int // … right before STARTTLS was sent
	dump      string
	dumpMsgs  []dumpMsg
}

func (st *smtpStack) countMsgs() int {
	_, ms := st.dumpStore()
	return len(ms)
}

// serveOnPipe starts the real session on one end of a pipe.
func (st *smtpStack) serveOnPipe(tr *tlsTranscript) (net.Conn, chan struct{}) {
	client, server := net.Pipe()
	done := make(chan struct{})
	go func() {
		defer close(done)
		defer func() {
			if r := recover(); r != nil {
				tr.panicked = fmt.Sprint(r)
				server.Close()
			}
		}()
		st.srv.VerifServe(1, server)
	}()
	return client, done
}

// lockstep sends lines one by one, awaiting a reply after every command line and after the end-of-data line.
func (tr *tlsTranscript) lockstep(lc *lineClient, lines [][]byte, base int, phase int) bool {
	inData := false
	for i, l := range lines {
		if err := lc.write(l); err != nil {
			tr.ended = fmt.Sprintf("write of line %d failed: %v", base+i, err)
			return false
		}
		expect := !inData || string(l) == ".\r\n" || string(l) == ".\n"
		if !expect {
			continue
		}
		r, err := lc.smtpReply()
		if err != nil {
			tr.ended = fmt.Sprintf("no reply to line %d: %v", base+i, err)
			return false
		}
		tr.replies = append(tr.replies, r)
		tr.phase = append(tr.phase, phase)
		tr.lineReply[base+i] = len(tr.replies) - 1
		if !inData && r.code == 354 {
			inData = true
		} else if inData {
			inData = false
		}
		if !inData && r.code == 220 && lc.conn == lc.raw {
			// a STARTTLS of the dialogue itself was accepted (the one the case was built around had been refused, e.g. 503 before any
			// greeting): a well-behaved client now negotiates TLS before it says anything else
			if err := lc.handshake(); err != nil {
				tr.hsErr = err
				tr.ended = fmt.Sprintf("the server answered 220 to line %d but the TLS handshake failed: %v", base+i, err)
				return false
			}
			phase = 1
		}
		if r.code == 221 {
			// the session is over; anything further would only fail
			return i == len(lines)-1
		}
	}
	return true
}

// playTLS: greeting, `plain` in the clear (its last line is the STARTTLS the client means), handshake, `inner` inside TLS.
// glue, when non-empty, is written in the same Write as the last plain line.
func (st *smtpStack) playTLS(plain, inner [][]byte, glue []byte, doHandshake bool) *tlsTranscript {
	tr := &tlsTranscript{lineReply: make([]int, len(plain)+len(inner))}
	for i := range tr.lineReply {
		tr.lineReply[i] = -1
	}
	conn, done := st.serveOnPipe(tr)
	lc := newLineClient(conn)
	finish := func() *tlsTranscript {
		lc.close()
		select {
		case <-done:
		case <-time.After(8 * time.Second):
			tr.wedged = true
		}
		tr.dump, tr.dumpMsgs = st.dumpStore()
		return tr
	}
	g, err := lc.smtpReply()
	if err != nil {
		tr.ended = "no greeting: " + err.Error()
		return finish()
	}
	tr.replies = append(tr.replies, g)
	tr.phase = append(tr.phase, 0)
	if len(plain) == 0 {
		return finish()
	}
	if !tr.lockstep(lc, plain[:len(plain)-1], 0, 0) {
		return finish()
	}
	tr.preCount = st.countMsgs()
	last := append(append([]byte{}, plain[len(plain)-1]...), glue...)
	wdone := make(chan error, 1)
	go func() { wdone <- lc.write(last) }() // more than the reader's buffer cannot be written before the 220 is read
	r, err := lc.smtpReply()
	if err != nil {
		tr.ended = "no reply to the last plain line: " + err.Error()
		return finish()
	}
	tr.replies = append(tr.replies, r)
	tr.phase = append(tr.phase, 0)
	tr.lineReply[len(plain)-1] = len(tr.replies) - 1
	if r.code != 220 || !doHandshake {
		select {
		case <-wdone:
		case <-time.After(tlsStepLimit):
		}
		if r.code == 220 {
			return finish()
		}
		// no switch: go on in the clear
		tr.lockstep(lc, inner, len(plain), 0)
		return finish()
	}
	hs := make(chan error, 1)
	go func() {
		// the glued bytes must be out before the ClientHello
		select {
		case <-wdone:
		case <-time.After(tlsStepLimit):
		}
		hs <- lc.handshake()
	}()
	select {
	case tr.hsErr = <-hs:
	case <-time.After(2 * tlsStepLimit):
		tr.hsErr = fmt.Errorf("handshake did not finish")
	}
	if tr.hsErr != nil {
		return finish()
	}
	tr.midCount = st.countMsgs()
	tr.lockstep(lc, inner, len(plain), 1)
	return finish()
}

func (tr *tlsTranscript) tokens() []string {
	t := make([]string, len(tr.replies))
	for i, r := range tr.replies {
		t[i] = r.token()
	}
	return t
}

// ---------------------------------------------------------------------------------------------------------------
// model lines

func (st *smtpStack) tlsFlags() string {
	return fmt.Sprintf(" tls=%d force=%d", b2i(st.env.tls), b2i(st.env.force))
}

func b2i(b bool) int {
	if b {
		return 1
	}
	return 0
}

func flat(lines [][]byte) []byte {
	var b []byte
	for _, l := range lines {
		b = append(b, l...)
	}
	return b
}

// wireLine: the driver's `wire` op for this stack.
func (st *smtpStack) wireLine(pre, inner []byte, hasInner bool, bufn int, blocks [][]byte) string {
	base := st.modelLine(append(append([]byte{}, pre...), inner...), blocks, "-")
	base = "wire " + strings.TrimPrefix(base[:strings.LastIndex(base, " inp=")], "run ")
	in := "none"
	if hasInner {
		in = core.Hex(inner)
	}
	return base + st.tlsFlags() + fmt.Sprintf(" pre=%s bufn=%d inner=%s", core.Hex(pre), bufn, in)
}

// ---------------------------------------------------------------------------------------------------------------
// the leg

type tlsCase struct {
	kind   string
	env    *smtpEnv
	plain  [][]byte
	inner  [][]byte
	glue   []byte
	blocks [][]byte
	note   string
}

func (tc *tlsCase) describe() []string {
	c := []string{fmt.Sprintf("kind=%s tls=%v force=%v naming=%s maxrcpt=%d maxbytes=%d %s", tc.kind, tc.env.tls, tc.env.force, tc.env.naming, tc.env.maxRcpt, tc.env.maxBytes, tc.note),
		fmt.Sprintf("policy=%+v", tc.env.pol), "-- in the clear:"}
	show := func(ls [][]byte) {
		for _, l := range ls {
			s := string(l)
			if len(s) > 160 {
				s = s[:160] + fmt.Sprintf("...(%d bytes)", len(l))
			}
			c = append(c, strconv.Quote(s))
		}
	}
	show(tc.plain)
	if len(tc.glue) > 0 {
		g := string(tc.glue)
		if len(g) > 300 {
			g = g[:300] + fmt.Sprintf("...(%d bytes)", len(tc.glue))
		}
		c = append(c, "-- glued behind the last line in the same write: "+strconv.Quote(g))
	}
	c = append(c, "-- inside TLS:")
	show(tc.inner)
	if len(c) > 90 {
		c = append(c[:90], "...")
	}
	return c
}

const clearHelo = "clear-only.example"

func c03TlsEnv(r *rand.Rand, cert, key string) *smtpEnv {
	p := smtpProfile{namings: allNamings}
	e := p.randEnv(r)
	e.tls, e.certFile, e.keyFile = true, cert, key
	return e
}

func tlsBuild(c *core.Ctx, e *smtpEnv) *smtpStack {
	smtpMu.Lock()
	st, err := e.build()
	smtpMu.Unlock()
	if err != nil {
		c.Note("TLS leg: stack build failed: %v", err)
		return nil
	}
	return st
}

// checkTranscript: the oracles that need nothing but the bytes sent and the replies received.
func tlsOracles(c *core.Ctx, tc *tlsCase, tr *tlsTranscript, switched bool) {
	cas := tc.describe()
	if tr.panicked != "" {
		c.Fail("no-panic", cas, "SMTP session goroutine panicked: "+tr.panicked, "")
		return
	}
	if tr.wedged {
		c.Fail("no-wedge", cas, "session did not end within 8 s after the client closed the connection", "")
		return
	}
	if !switched {
		return
	}
	if tr.midCount != tr.preCount {
		c.Fail("starttls-stores-nothing", cas, fmt.Sprintf("%d message(s) in the store before STARTTLS, %d right after the handshake", tr.preCount, tr.midCount), "")
	}
	// inside TLS: no MAIL may be accepted before a greeting was accepted inside TLS; no STARTTLS may be answered 220
	all := append(append([][]byte{}, tc.plain...), tc.inner...)
	greeted := false
	inData := false
	for i := len(tc.plain); i < len(all); i++ {
		ri := tr.lineReply[i]
		if inData {
			if ri >= 0 {
				inData = false
			}
			continue
		}
		if ri < 0 {
			continue
		}
		r := tr.replies[ri]
		cmd, arg, ok := harnessParseCmd(string(all[i]))
		if r.code == 354 {
			inData = true
		}
		if !ok {
			continue
		}
		switch cmd {
		case "HELO", "EHLO":
			if r.code == 250 && arg != "" {
				greeted = true
			}
		case "MAIL":
			if r.code == 250 && !greeted {
				c.Fail("greeting-needed-after-starttls", cas, fmt.Sprintf("line %d (%q) was answered 250 inside TLS although no HELO/EHLO had been accepted since the handshake", i, strings.TrimSpace(string(all[i]))), "")
			}
		case "STARTTLS":
			if r.code == 220 {
				c.Fail("starttls-twice-454", cas, fmt.Sprintf("STARTTLS inside TLS (line %d) was answered 220", i), "")
			}
		case "RCPT", "DATA":
			if (r.code == 250 || r.code == 354) && !greeted {
				c.Fail("greeting-needed-after-starttls", cas, fmt.Sprintf("line %d (%q) was answered %d inside TLS before any greeting", i, strings.TrimSpace(string(all[i])), r.code), "")
			}
		}
	}
	// the HELO name given in the clear must not appear in the trace header of a message delivered inside TLS
	preBlocks := map[string]bool{}
	inData = false
	var cur []byte
	for i, l := range all {
		if inData {
			if string(l) == ".\r\n" {
				inData = false
				if dec, ok := dotDecode(append(cur, l...)); ok && i < len(tc.plain) {
					preBlocks[string(dec)] = true
				}
				cur = nil
			} else {
				cur = append(cur, l...)
			}
			continue
		}
		if ri := tr.lineReply[i]; ri >= 0 && tr.replies[ri].code == 354 {
			inData = true
		}
	}
	for _, m := range tr.dumpMsgs {
		idx := bytes.Index(m.source, []byte("\r\n  for <"))
		end := -1
		if idx >= 0 {
			end = bytes.Index(m.source[idx+2:], []byte("\r\n"))
		}
		if idx < 0 || end < 0 {
			c.Fail("tls-content-exact", cas, fmt.Sprintf("stored message in %q has no trace headers: %q", m.mailbox, clipB(m.source, 120)), "")
			continue
		}
		body := m.source[idx+2+end+2:]
		if preBlocks[string(body)] {
			continue
		}
		if bytes.Contains(m.source[:idx], []byte("Received: from "+clearHelo+" ")) {
			c.Fail("helo-name-after-starttls", cas, fmt.Sprintf("a message delivered inside TLS carries the HELO name given in the clear: %q", clipB(m.source[:idx], 200)), "")
		}
		found := false
		for _, b := range tc.blocks {
			if bytes.Equal(b, body) {
				found = true
			}
		}
		if !found {
			c.Fail("tls-content-exact", cas, fmt.Sprintf("the stored body in %q (%d bytes) is none of the blocks sent: %q", m.mailbox, len(body), clipB(body, 160)), "")
		}
	}
}

func clipB(b []byte, n int) string {
	if len(b) > n {
		return string(b[:n]) + "…"
	}
	return string(b)
}

// compareRun: replies and store against `run` on the command stream.
func (st *smtpStack) compareRun(c *core.Ctx, m *core.Model, tc *tlsCase, tr *tlsTranscript, stream []byte, corr string) {
	ans := m.Ask(st.modelLine(stream, tc.blocks, "-") + st.tlsFlags())
	c.Compared(1)
	want := stripStore(strings.Split(ans, " "))
	got := tr.tokens()
	if strings.Join(got, " ") != strings.Join(want, " ") {
		c.Diverge(corr+"-replies", tc.describe(), strings.Join(got, " "), strings.Join(want, " ")+"   ["+ans[:min(len(ans), 300)]+"]")
		return
	}
	if wd := fieldOf(ans, "dump"); wd != tr.dump {
		c.Diverge(corr+"-store", tc.describe(), tr.dump, wd)
	}
}

func c03TlsLeg(c *core.Ctx) {
	cert, key, err := tlsCertFiles(c)
	if err != nil {
		c.Note("TLS leg: cannot create a certificate: %v", err)
		return
	}
	m := c.NewModel("smtp")
	defer m.Close()
	t0 := time.Now()
	c03TlsDialogues(c, m, cert, key)
	c03TlsAdvert(c, m, cert, key)
	c03TlsInject(c, m, cert, key)
	c03TlsForce(c, m, cert, key)
	c.Note("C03 TLS leg: %.1f s", time.Since(t0).Seconds())
}

func startTLSLine(r *rand.Rand) []byte {
	return []byte(caseMix(r, "STARTTLS") + []string{"", "", "", " ", " now"}[r.Intn(5)] + "\r\n")
}

// retagHelo: the greeting lines of a generated dialogue that name "client.example" name `name` instead.
func retagHelo(lines [][]byte, name string) [][]byte {
	out := make([][]byte, len(lines))
	for i, l := range lines {
		out[i] = bytes.Replace(l, []byte(" client.example"), []byte(" "+name), 1)
	}
	return out
}

func c03TlsDialogues(c *core.Ctx, m *core.Model, cert, key string) {
	n := c.Scale(300, 8000)
	core.Parallel(n, 8, func(i int) {
		r := c.SubRng(fmt.Sprintf("c03tls-dlg-%d", i))
		env := c03TlsEnv(r, cert, key)
		if r.Intn(10) == 0 {
			env.tls = false // STARTTLS answered 454: the "inner" part then goes on in the clear
		}
		g := &smtpGen{r: r, env: env, errRate: 8}
		tc := &tlsCase{kind: "dialogue", env: env}
		// in the clear: sometimes nothing but the greeting, sometimes a whole dialogue first
		switch r.Intn(4) {
		case 0:
			tc.plain = [][]byte{[]byte("EHLO " + clearHelo + "\r\n")}
		case 1:
			tc.plain = [][]byte{[]byte("HELO " + clearHelo + "\r\n")}
		case 2:
			tc.plain = [][]byte{} // STARTTLS before any greeting: 503
		default:
			d := g.dialogue()
			ls := retagHelo(d.lines, clearHelo)
			if k := len(ls); k > 0 && strings.HasPrefix(strings.ToUpper(string(ls[k-1])), "QUIT") {
				ls = ls[:k-1]
			}
			tc.plain = ls
			tc.blocks = append(tc.blocks, d.blocks...)
		}
		tc.plain = append(tc.plain, startTLSLine(r))
		g.errRate = []int{4, 15, 40}[r.Intn(3)]
		d := g.dialogue()
		tc.inner = d.lines
		tc.blocks = append(tc.blocks, d.blocks...)
		st := tlsBuild(c, env)
		if st == nil {
			return
		}
		tr := st.playTLS(tc.plain, tc.inner, nil, true)
		last := -1
		if li := tr.lineReply[len(tc.plain)-1]; li >= 0 {
			last = tr.replies[li].code
		}
		switched := last == 220 && tr.hsErr == nil
		stream := append(flat(tc.plain), flat(tc.inner)...)
		c.Count(fmt.Sprintf("tls-dlg/%s/%x", env.pol.line(), stream), switched && len(tr.dumpMsgs) > 0)
		c.H(fmt.Sprintf("tls-dialogue:starttls=%d", last))
		if last == 220 && tr.hsErr != nil {
			c.Fail("starttls-handshake-completes", tc.describe(), "the server answered 220 to STARTTLS but the handshake of a well-behaved client failed: "+tr.hsErr.Error(), "")
			return
		}
		tlsOracles(c, tc, tr, switched)
		if tr.panicked != "" || tr.wedged {
			return
		}
		if tr.ended != "" && !strings.Contains(tr.ended, "EOF") {
			got := []string{}
			for _, rp := range tr.replies {
				got = append(got, rp.token())
			}
			c.Fail("one-reply-per-line", tc.describe(), tr.ended+"; replies received so far: "+strings.Join(got, " "), "")
			return
		}
		// what was actually sent (the client stops after a 221)
		sent := 0
		for i := range tr.lineReply {
			if tr.lineReply[i] >= 0 {
				sent = i + 1
			}
		}
		all := append(append([][]byte{}, tc.plain...), tc.inner...)
		// body lines behind the last answered line belong to an unfinished data block only if the dialogue was cut; it is not
		st.compareRun(c, m, tc, tr, flat(all[:max(sent, 0)]), "smtp-tls")
	})
}

// c03TlsAdvert: is 250-STARTTLS listed exactly when STARTTLS is then answered 220?
func c03TlsAdvert(c *core.Ctx, m *core.Model, cert, key string) {
	type sc struct {
		name       string
		tls, force bool
		afterTLS   bool
	}
	for _, s := range []sc{{"no-tls", false, false, false}, {"tls-clear", true, false, false}, {"tls-after-switch", true, false, true}} {
		r := c.SubRng("c03tls-advert-" + s.name)
		env := c03TlsEnv(r, cert, key)
		env.tls = s.tls
		st := tlsBuild(c, env)
		if st == nil {
			continue
		}
		tc := &tlsCase{kind: "advert", env: env, note: s.name}
		probe := [][]byte{[]byte("EHLO probe.example\r\n"), []byte("STARTTLS\r\n")}
		var tr *tlsTranscript
		if s.afterTLS {
			tc.plain = [][]byte{[]byte("EHLO " + clearHelo + "\r\n"), []byte("STARTTLS\r\n")}
			tc.inner = probe
			tr = st.playTLS(tc.plain, tc.inner, nil, true)
		} else {
			tc.plain = probe
			tr = st.playTLS(tc.plain, nil, nil, false)
		}
		c.Count("tls-advert/"+s.name, true)
		all := append(append([][]byte{}, tc.plain...), tc.inner...)
		ei, si := len(all)-2, len(all)-1
		if tr.lineReply[ei] < 0 || tr.lineReply[si] < 0 {
			c.Fail("ehlo-advert-matches-acceptance", tc.describe(), "the probe EHLO / STARTTLS got no reply: "+tr.ended+fmt.Sprint(tr.hsErr), "")
			continue
		}
		adv := false
		for _, l := range tr.replies[tr.lineReply[ei]].lines {
			if strings.EqualFold(strings.TrimSpace(l), "STARTTLS") {
				adv = true
			}
		}
		code := tr.replies[tr.lineReply[si]].code
		c.H(fmt.Sprintf("tls-advert:%s adv=%v code=%d", s.name, adv, code))
		if adv != (code == 220) {
			c.Fail("ehlo-advert-matches-acceptance", tc.describe(), fmt.Sprintf("EHLO listed STARTTLS: %v, but the STARTTLS that followed was answered %d", adv, code), "")
		}
		if s.afterTLS && code != 454 {
			c.Fail("starttls-twice-454", tc.describe(), fmt.Sprintf("a second STARTTLS (inside TLS, in READY) was answered %d, not 454", code), "")
		}
		if !s.tls && code != 454 {
			c.Fail("ehlo-advert-matches-acceptance", tc.describe(), fmt.Sprintf("STARTTLS on a server without a key pair was answered %d, not 454", code), "")
		}
		if s.tls && !s.afterTLS && !adv {
			c.Fail("ehlo-advert-matches-acceptance", tc.describe(), "a server with TLSEnabled and a loaded key pair does not list STARTTLS in its EHLO reply", "")
		}
		// a 220 the client does not follow up with a handshake ends the comparison at the 220
		st.compareRun(c, m, tc, tr, flat(all), "smtp-tls-advert")
	}
}

// c03TlsInject: bytes glued behind STARTTLS.
func c03TlsInject(c *core.Ctx, m *core.Model, cert, key string) {
	n := c.Scale(60, 2000)
	core.Parallel(n, 8, func(i int) {
		r := c.SubRng(fmt.Sprintf("c03tls-inj-%d", i))
		env := c03TlsEnv(r, cert, key)
		env.pol.da, env.pol.ds = true, true
		env.pol.rej, env.pol.dis, env.pol.ro = nil, nil, nil
		env.maxRcpt = 5
		mode := []string{"same-write", "same-write", "later-write", "beyond-buffer"}[r.Intn(4)]
		tc := &tlsCase{kind: "inject", env: env, note: mode}
		tc.plain = [][]byte{[]byte("EHLO " + clearHelo + "\r\n"), []byte("STARTTLS\r\n")}
		// what an attacker in the middle would glue: a whole envelope, or a greeting + envelope
		body := "Subject: injected\r\n\r\nowned\r\n"
		glueLines := []string{"MAIL FROM:<attacker@example.com>", "RCPT TO:<victim@example.com>"}
		switch r.Intn(3) {
		case 0:
			glueLines = append([]string{"EHLO evil.example"}, glueLines...)
		case 1:
			glueLines = append(glueLines, "DATA")
		}
		glue := []byte(strings.Join(glueLines, "\r\n") + "\r\n")
		if strings.HasSuffix(strings.TrimSpace(string(glue)), "DATA") {
			glue = append(glue, []byte(body+".\r\n")...)
		}
		if mode == "beyond-buffer" {
			glue = append(glue, bytes.Repeat([]byte("NOOP\r\n"), 700+r.Intn(200))...)
		}
		// inside TLS the victim's client goes on where the attacker wants it: a transaction WITHOUT MAIL (it would complete the
		// injected envelope), then, after a proper greeting, an honest one
		tc.inner = [][]byte{[]byte("RCPT TO:<second@example.com>\r\n"), []byte("DATA\r\n"), []byte("EHLO honest.example\r\n"), []byte("RCPT TO:<third@example.com>\r\n"),
			[]byte("MAIL FROM:<honest@example.com>\r\n"), []byte("RCPT TO:<bob@example.com>\r\n"), []byte("DATA\r\n"), []byte("Subject: honest\r\n"), []byte("\r\n"), []byte("hi\r\n"), []byte(".\r\n"), []byte("QUIT\r\n")}
		tc.blocks = [][]byte{[]byte("Subject: honest\n\nhi\n"), []byte("Subject: injected\n\nowned\n")}
		st := tlsBuild(c, env)
		ctl := tlsBuild(c, env)
		if st == nil || ctl == nil {
			return
		}
		c.Count(fmt.Sprintf("tls-inject/%s/%x", mode, glue[:min(len(glue), 64)]), true)
		switch mode {
		case "same-write", "beyond-buffer":
			tc.glue = glue
			tr := st.playTLS(tc.plain, tc.inner, glue, true)
			tlsOracles(c, tc, tr, tr.hsErr == nil)
			buffered := len(glue)
			if room := 4096 - len(tc.plain[len(tc.plain)-1]); buffered > room {
				buffered = room
			}
			c.H(fmt.Sprintf("tls-inject:%s handshake-ok=%v", mode, tr.hsErr == nil))
			// implementation only: nothing of the glued bytes may have been executed
			for _, mm := range tr.dumpMsgs {
				if mm.subject == "injected" || strings.Contains(mm.from, "attacker") || mm.mailbox == "victim" {
					c.Fail("starttls-no-plaintext-injection", tc.describe(), fmt.Sprintf("a message built from bytes sent in the clear behind STARTTLS was stored: mailbox %q from %q subject %q", mm.mailbox, mm.from, mm.subject), "F-03tls")
				}
			}
			if tr.hsErr == nil {
				// the session must be indistinguishable from one that never saw the glued bytes
				ctr := ctl.playTLS(tc.plain, tc.inner, nil, true)
				if a, b := strings.Join(tr.tokens(), " "), strings.Join(ctr.tokens(), " "); a != b || tr.dump != ctr.dump {
					c.Fail("starttls-no-plaintext-injection", tc.describe(), fmt.Sprintf("with the bytes glued behind STARTTLS the session answered [%s] and stored %d message(s); the control session without them answered [%s] and stored %d", a, len(tr.dumpMsgs), b, len(ctr.dumpMsgs)), "F-03tls")
				}
			} else if mode == "same-write" && buffered == len(glue) {
				c.Fail("starttls-handshake-completes", tc.describe(), "all glued bytes fit the reader's buffer (they are dropped with it), yet the handshake failed: "+tr.hsErr.Error(), "")
			}
			if tr.panicked != "" || tr.wedged {
				return
			}
			pre := append(flat(tc.plain), glue...)
			hasInner := tr.hsErr == nil
			ans := m.Ask(st.wireLine(pre, flat(tc.inner), hasInner, buffered, tc.blocks))
			c.Compared(1)
			want := stripStore(strings.Split(ans, " "))
			if got := tr.tokens(); strings.Join(got, " ") != strings.Join(want, " ") {
				c.Diverge("smtp-tls-wire-replies", tc.describe(), strings.Join(got, " "), strings.Join(want, " ")+"   ["+ans[:min(len(ans), 300)]+"]")
			} else if wd := fieldOf(ans, "dump"); wd != tr.dump {
				c.Diverge("smtp-tls-wire-store", tc.describe(), tr.dump, wd)
			}
			if mode == "beyond-buffer" && tr.hsErr == nil {
				c.Note("beyond-buffer glue of %d bytes: handshake succeeded (the reader took more than 4096 bytes)", len(glue))
			}
		case "later-write":
			// STARTTLS alone, the 220 is read, THEN the plaintext bytes, then the client tries its handshake
			tr2 := &tlsTranscript{lineReply: make([]int, len(tc.plain))}
			conn, done := st.serveOnPipe(tr2)
			lc := newLineClient(conn)
			ok := true
			if _, err := lc.smtpReply(); err != nil {
				ok = false
			}
			var seen []string
			for _, l := range tc.plain {
				if !ok {
					break
				}
				lc.write(l)
				rr, err := lc.smtpReply()
				if err != nil {
					ok = false
					break
				}
				seen = append(seen, rr.token())
			}
			var after []byte
			hsErr := fmt.Errorf("not tried")
			if ok {
				tc.glue = nil
				tc.note = mode + " glue=" + strconv.Quote(string(glue[:min(len(glue), 120)]))
				lc.write(glue)
				hsErr = lc.handshake()
				if hsErr == nil {
					// whatever happened, nothing of the glue may have run; try the attacker's continuation
					tr2.lineReply = make([]int, len(tc.plain)+len(tc.inner))
					for k := range tr2.lineReply {
						tr2.lineReply[k] = -1
					}
					tr2.lockstep(lc, tc.inner, len(tc.plain), 1)
				} else {
					lc.raw.SetReadDeadline(time.Now().Add(time.Second))
					buf := make([]byte, 512)
					k, _ := lc.raw.Read(buf)
					after = buf[:k]
				}
			}
			lc.close()
			select {
			case <-done:
			case <-time.After(8 * time.Second):
				c.Fail("no-wedge", tc.describe(), "session did not end within 8 s after a failed handshake", "")
				return
			}
			_, msgs := st.dumpStore()
			c.H(fmt.Sprintf("tls-inject:later-write handshake-ok=%v", hsErr == nil))
			for _, mm := range msgs {
				if mm.subject == "injected" || strings.Contains(mm.from, "attacker") || mm.mailbox == "victim" {
					c.Fail("starttls-no-plaintext-injection", tc.describe(), fmt.Sprintf("a message built from bytes sent in the clear behind the 220 was stored: mailbox %q from %q", mm.mailbox, mm.from), "F-03tls")
				}
			}
			if hsErr == nil {
				c.Fail("starttls-no-plaintext-injection", tc.describe(), "plaintext bytes written between the 220 and the ClientHello did not make the handshake fail", "F-03tls")
			}
			if bytes.Contains(after, []byte("250 ")) || bytes.Contains(after, []byte("354 ")) {
				c.Fail("starttls-no-plaintext-injection", tc.describe(), fmt.Sprintf("after the failed handshake the server answered in the clear: %q", after), "F-03tls")
			}
			if tr2.panicked != "" {
				c.Fail("no-panic", tc.describe(), tr2.panicked, "")
				return
			}
			// model: nothing buffered, the handshake fails
			d, _ := st.dumpStore()
			ans := m.Ask(st.wireLine(append(flat(tc.plain), glue...), nil, false, 0, tc.blocks))
			c.Compared(1)
			want := stripStore(strings.Split(ans, " "))
			got := append([]string{"r220"}, seen...)
			if hsErr != nil && strings.Join(got, " ") != strings.Join(want, " ") {
				c.Diverge("smtp-tls-wire-replies", tc.describe(), strings.Join(got, " "), strings.Join(want, " ")+"   ["+ans[:min(len(ans), 300)]+"]")
			} else if wd := fieldOf(ans, "dump"); hsErr != nil && wd != d {
				c.Diverge("smtp-tls-wire-store", tc.describe(), d, wd)
			} else if hsErr != nil && fieldOf(ans, "end") != "tlsFail" {
				c.Diverge("smtp-tls-wire-end", tc.describe(), "handshake failed, connection closed", fieldOf(ans, "end"))
			}
		}
	})
}

// withForceServer builds a ForceTLS stack, runs the real Start() (tls.Listen on loopback) and hands the address to f.
func withForceServer(c *core.Ctx, env *smtpEnv, f func(st *smtpStack, addr string)) {
	st := tlsBuild(c, env)
	if st == nil {
		return
	}
	ctx, cancel := context.WithCancel(context.Background())
	ready := make(chan struct{})
	go st.srv.Start(ctx, func() { close(ready) })
	select {
	case <-ready:
	case err := <-st.srv.Notify():
		cancel()
		c.Fail("forcetls-tls-session-normal", []string{"ForceTLS=true TLSEnabled=true, valid key pair"}, fmt.Sprintf("the server did not start: %v", err), "")
		return
	case <-time.After(5 * time.Second):
		cancel()
		c.Fail("forcetls-tls-session-normal", []string{"ForceTLS=true TLSEnabled=true, valid key pair"}, "Start() neither became ready nor failed within 5 s", "")
		return
	}
	defer func() {
		cancel()
		fin := make(chan struct{})
		go func() { st.srv.Drain(); close(fin) }()
		select {
		case <-fin:
		case <-time.After(8 * time.Second):
			c.Fail("no-wedge", []string{"ForceTLS server"}, "Drain did not return within 8 s of the shutdown", "")
		}
	}()
	f(st, st.srv.VerifListenerAddr().String())
}

// c03TlsForce: ForceTLS through the real Start().
func c03TlsForce(c *core.Ctx, m *core.Model, cert, key string) {
	r := c.SubRng("c03tls-force")
	env := c03TlsEnv(r, cert, key)
	env.force = true
	env.pol.da, env.pol.ds = true, true
	// plaintext clients
	withForceServer(c, env, func(st *smtpStack, addr string) {
		for k, hello := range []string{"EHLO plain.example\r\nMAIL FROM:<a@example.com>\r\nRCPT TO:<b@example.com>\r\n", "", "HELO x\r\nSTARTTLS\r\n"} {
			tc := &tlsCase{kind: "force-plaintext", env: env, plain: [][]byte{[]byte(hello)}}
			conn, err := net.DialTimeout("tcp4", addr, 3*time.Second)
			if err != nil {
				c.Note("ForceTLS: dial failed: %v", err)
				continue
			}
			c.Count(fmt.Sprintf("tls-force-plain/%d", k), true)
			if hello != "" {
				conn.SetWriteDeadline(time.Now().Add(2 * time.Second))
				conn.Write([]byte(hello))
			}
			conn.SetReadDeadline(time.Now().Add(1200 * time.Millisecond))
			buf := make([]byte, 2048)
			var got []byte
			for {
				k, err := conn.Read(buf)
				got = append(got, buf[:k]...)
				if err != nil || len(got) > 1500 {
					break
				}
			}
			conn.Close()
			if bytes.Contains(got, []byte("220 ")) || bytes.Contains(got, []byte("250")) || bytes.Contains(got, []byte("Inbucket")) {
				c.Fail("forcetls-plaintext-gets-nothing", tc.describe(), fmt.Sprintf("a client talking in the clear to a ForceTLS listener received %q", clipB(got, 200)), "")
			}
			if hello != "" {
				ans := m.Ask(st.wireLine([]byte(hello), nil, false, 0, nil))
				c.Compared(1)
				if w := stripStore(strings.Split(ans, " ")); len(w) != 0 || fieldOf(ans, "end") != "tlsFail" {
					c.Diverge("smtp-forcetls-plaintext", tc.describe(), "no reply, connection closed", ans[:min(len(ans), 200)])
				}
			}
		}
		if d, _ := st.dumpStore(); d != "" {
			c.Fail("forcetls-plaintext-gets-nothing", []string{"plaintext clients against ForceTLS"}, "the store is not empty after plaintext clients only: "+d[:min(len(d), 200)], "")
		}
	})
	// TLS clients: ordinary generated dialogues, each on its own server (fresh store)
	n := c.Scale(12, 400)
	core.Parallel(n, 6, func(i int) {
		rr := c.SubRng(fmt.Sprintf("c03tls-force-%d", i))
		env := c03TlsEnv(rr, cert, key)
		env.force = true
		g := &smtpGen{r: rr, env: env, errRate: 10}
		d := g.dialogue()
		lines := d.lines
		if rr.Intn(3) == 0 {
			lines = append([][]byte{[]byte("EHLO first.example\r\n"), []byte("STARTTLS\r\n")}, lines...)
		}
		tc := &tlsCase{kind: "force-tls", env: env, inner: lines, blocks: d.blocks}
		withForceServer(c, env, func(st *smtpStack, addr string) {
			raw, err := net.DialTimeout("tcp4", addr, 3*time.Second)
			if err != nil {
				c.Note("ForceTLS: dial failed: %v", err)
				return
			}
			lc := newLineClient(raw)
			if err := lc.handshake(); err != nil {
				lc.close()
				c.Fail("forcetls-tls-session-normal", tc.describe(), "TLS handshake with the ForceTLS listener failed: "+err.Error(), "")
				return
			}
			tr := &tlsTranscript{lineReply: make([]int, len(lines))}
			for k := range tr.lineReply {
				tr.lineReply[k] = -1
			}
			gr, err := lc.smtpReply()
			if err != nil || gr.code != 220 {
				lc.close()
				c.Fail("forcetls-tls-session-normal", tc.describe(), fmt.Sprintf("no 220 greeting inside TLS: %v %v", gr, err), "")
				return
			}
			tr.replies = append(tr.replies, gr)
			tr.phase = append(tr.phase, 1)
			tr.lockstep(lc, lines, 0, 1)
			lc.close()
			// wait for the session goroutine (it notices the close at once): Drain after a cancel would also stop the listener,
			// so poll the store until it has been quiet for a moment
			prev := ""
			for k := 0; k < 50; k++ {
				time.Sleep(10 * time.Millisecond)
				cur, _ := st.dumpStore()
				if cur == prev && k > 1 {
					break
				}
				prev = cur
			}
			tr.dump, tr.dumpMsgs = st.dumpStore()
			c.Count(fmt.Sprintf("tls-force/%x", flat(lines)), len(tr.dumpMsgs) > 0)
			for k, l := range lines {
				cmd, _, ok := harnessParseCmd(string(l))
				if !ok || tr.lineReply[k] < 0 {
					continue
				}
				if cmd == "STARTTLS" && tr.replies[tr.lineReply[k]].code == 220 {
					c.Fail("starttls-twice-454", tc.describe(), "STARTTLS on a ForceTLS connection was answered 220", "")
				}
				if cmd == "EHLO" {
					for _, t := range tr.replies[tr.lineReply[k]].lines {
						if strings.EqualFold(strings.TrimSpace(t), "STARTTLS") {
							c.Fail("ehlo-advert-matches-acceptance", tc.describe(), "EHLO on a ForceTLS connection lists STARTTLS", "")
						}
					}
				}
			}
			sent := 0
			for k := range tr.lineReply {
				if tr.lineReply[k] >= 0 {
					sent = k + 1
				}
			}
			// the remote host is the loopback address here (the trace header names it)
			line := st.modelLine(flat(lines[:sent]), tc.blocks, "-") + st.tlsFlags()
			line = strings.Replace(line, " rhost="+core.HexS("pipe"), " rhost="+core.HexS("127.0.0.1"), 1)
			ans := m.Ask(line)
			c.Compared(1)
			want := stripStore(strings.Split(ans, " "))
			if got := tr.tokens(); strings.Join(got, " ") != strings.Join(want, " ") {
				c.Diverge("smtp-forcetls-replies", tc.describe(), strings.Join(got, " "), strings.Join(want, " ")+"   ["+ans[:min(len(ans), 300)]+"]")
			} else if wd := fieldOf(ans, "dump"); wd != tr.dump {
				c.Diverge("smtp-forcetls-store", tc.describe(), tr.dump, wd)
			}
		})
	})
}
