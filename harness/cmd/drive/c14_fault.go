package main

// C14 leg "the store fails" (hooked in through extra["C14"]): "… a request for a message that does not exist is answered 404 and NO
// REQUEST MAKES A HANDLER PANIC OR DROP THE CONNECTION" — when the store underneath reports errors.
//
//   The REAL web.Router + handlers of pkg/rest and pkg/webui + web.Handler.ServeHTTP + the REAL message.StoreManager run over a DECORATOR
//   store (c14fStore) that wraps the real memory / file store and fails the k-th call of a chosen kind with a chosen error, WITHOUT calling
//   the store underneath (child processes as in c14.go: the router is a package global):
//
//       kinds   gms Store.GetMessages   gm Store.GetMessage   so Message.Source() (open)   sr a Read of the opened source (after n bytes)
//               ms Store.MarkSeen       rm Store.RemoveMessage   pm Store.PurgeMessages
//       errors  io  a plain error       ne storage.ErrNotExist itself       wne fmt.Errorf("…: %w", storage.ErrNotExist)
//       also    a stored message whose bytes enmime.ReadEnvelope rejects (delivered to the real store as it is)
//
//   Every route (10) × every kind it can meet (and one it cannot: control) × every error × position (k = 1: this request; k = 2: this request
//   passes, the SAME request repeated is hit) × existing id / "latest" / missing id, then two and three faults at once; each through raw HTTP
//   and — the six REST operations — through the bundled Go client (pkg/rest/client).
//
//   Oracles (implementation only — the decorator knows which calls were made and which were failed):
//     no-handler-panic                      no transport error, nothing in the server's error log (net/http logs a recovered handler panic there)
//     fault-is-not-success                  a request during which a store call was failed is not answered 2xx
//     failed-request-changes-nothing        non-2xx, or the mutating call was failed  ⇒  the dump of the WHOLE real store (ids, order, seen flags,
//                                           metadata, content hashes) is what it was, and no `deleted` event was emitted
//     missing-is-404-only-when-missing      404 ⇒ the addressed message is missing or a failed call said exactly ErrNotExist;  missing message and
//                                           no failed call ⇒ 404 (never 500 / 200)
//     client-reports-the-error              a failed store call ⇒ the client method returns an error and no (half-filled) result
//     no-partial-body                       a non-2xx answer contains nothing of a stored message (no content token, no JSON message object)
//   T2 (model = Model.RestFault.handleF, driver `freq` of mode rest): status, payload of a 200 (ids → ranks), the bytes of a TORN 200 (prefix
//   of the source + the wrapper's error text), the store-level calls made in order (decorator log = model's `calls`), final store.

import (
	"bytes"
	"encoding/json"
	"errors"
	"fmt"
	"io"
	"math/rand"
	"net/http"
	"net/mail"
	"net/url"
	"os"
	"path/filepath"
	"sort"
	"strconv"
	"strings"
	"sync"
	"time"

	"github.com/inbucket/inbucket/v3/pkg/extension/event"
	"github.com/inbucket/inbucket/v3/pkg/message"
	"github.com/inbucket/inbucket/v3/pkg/rest/client"
	"github.com/inbucket/inbucket/v3/pkg/storage"
	"github.com/jhillyerd/enmime/v2"
	"github.com/rs/zerolog"
	zlog "github.com/rs/zerolog/log"

	"verif/harness/internal/core"
)

func init() {
	if cfg := os.Getenv("VERIF_C14FAULT_CHILD"); cfg != "" {
		c14FaultChild(cfg)
		os.Exit(0)
	}
	prev := extra["C14"]
	extra["C14"] = func(c *core.Ctx) {
		if prev != nil {
			prev(c)
		}
		c14FaultLeg(c)
	}
}

func c14FaultLeg(c *core.Ctx) {
	t0 := time.Now()
	var cfgs []c14Cfg
	for n, k := range [][3]string{{"local", "mem", ""}, {"local", "file", ""}, {"full", "file", "/pre/fix"}, {"domain", "mem", ""}} {
		cfgs = append(cfgs, c14Cfg{Naming: k[0], Backend: k[1], Base: k[2], Seed: c.Seed, Tier: c.Tier, Drv: c.DrvPath,
			Work: filepath.Join(c.Workdir, fmt.Sprintf("c14fault-%d", n)), Known: legKnownPath(),
			Out: filepath.Join(c.Workdir, fmt.Sprintf("c14fault-%d.json", n)), Histories: c.Scale(4, 60), Replay: n == 0})
	}
	runLegChildren(c, "VERIF_C14FAULT_CHILD", "fault-child-process", cfgs, c.Scale(200, 1500))
	for _, k := range cfgs { // runLegChildren does not carry the replayed witnesses of open findings over
		var r core.Result
		if b, err := os.ReadFile(k.Out); err == nil && json.Unmarshal(b, &r) == nil {
			for _, kh := range r.KnownHits {
				dup := false
				for _, x := range c.Res.KnownHits {
					if x.ID == kh.ID {
						dup = true
					}
				}
				if !dup {
					c.Res.KnownHits = append(c.Res.KnownHits, kh)
				}
			}
		}
	}
	c.Note("fault leg: %d configurations around the real router over a failing store, %.1fs", len(cfgs), time.Since(t0).Seconds())
}

// ---------------------------------------------------------------------------------------------- the decorator

var errC14fIO = errors.New("verif: injected I/O error")

func c14fErr(kind string) error {
	switch kind {
	case "ne":
		return storage.ErrNotExist
	case "wne":
		return fmt.Errorf("verif: injected: %w", storage.ErrNotExist)
	}
	return errC14fIO
}

type c14fFault struct {
	kind  string // gms gm so sr ms rm pm
	k     int    // the k-th call of that kind since arming (1-based)
	err   string // io | ne | wne
	after int    // sr: bytes delivered before the error
}

func (f c14fFault) String() string {
	s := fmt.Sprintf("%s#%d:%s", f.kind, f.k, f.err)
	if f.kind == "sr" {
		s += fmt.Sprintf("@%d", f.after)
	}
	return s
}

type c14fStore struct {
	inner  storage.Store
	mu     sync.Mutex
	faults []c14fFault
	count  map[string]int
	log    []string    // "gm:ok", "so:io", … in call order
	hits   []c14fFault // the faults that fired
}

func (s *c14fStore) arm(fs ...c14fFault) {
	s.mu.Lock()
	s.faults = fs
	s.count = map[string]int{}
	s.log = nil
	s.hits = nil
	s.mu.Unlock()
}

// take: the calls logged and the faults fired since the last take / arm
func (s *c14fStore) take() ([]string, []c14fFault) {
	s.mu.Lock()
	defer s.mu.Unlock()
	l, h := s.log, s.hits
	s.log, s.hits = nil, nil
	return l, h
}

// call: one call of `kind`; the fault to apply, if any
func (s *c14fStore) call(kind string) *c14fFault {
	s.mu.Lock()
	defer s.mu.Unlock()
	if s.count == nil {
		s.count = map[string]int{}
	}
	s.count[kind]++
	for i := range s.faults {
		f := s.faults[i]
		if f.kind == kind && f.k == s.count[kind] {
			s.log = append(s.log, kind+":"+f.err)
			s.hits = append(s.hits, f)
			return &f
		}
	}
	s.log = append(s.log, kind+":ok")
	return nil
}

func (s *c14fStore) AddMessage(m storage.Message) (string, error) { return s.inner.AddMessage(m) }

func (s *c14fStore) GetMessage(mailbox, id string) (storage.Message, error) {
	if f := s.call("gm"); f != nil {
		return nil, c14fErr(f.err)
	}
	m, err := s.inner.GetMessage(mailbox, id)
	if err != nil || m == nil {
		return m, err
	}
	return &c14fMsg{Message: m, st: s}, nil
}

func (s *c14fStore) GetMessages(mailbox string) ([]storage.Message, error) {
	if f := s.call("gms"); f != nil {
		return nil, c14fErr(f.err)
	}
	ms, err := s.inner.GetMessages(mailbox)
	if err != nil {
		return ms, err
	}
	out := make([]storage.Message, len(ms))
	for i, m := range ms {
		out[i] = &c14fMsg{Message: m, st: s}
	}
	return out, nil
}

func (s *c14fStore) MarkSeen(mailbox, id string) error {
	if f := s.call("ms"); f != nil {
		return c14fErr(f.err)
	}
	return s.inner.MarkSeen(mailbox, id)
}

func (s *c14fStore) RemoveMessage(mailbox, id string) error {
	if f := s.call("rm"); f != nil {
		return c14fErr(f.err)
	}
	return s.inner.RemoveMessage(mailbox, id)
}

func (s *c14fStore) PurgeMessages(mailbox string) error {
	if f := s.call("pm"); f != nil {
		return c14fErr(f.err)
	}
	return s.inner.PurgeMessages(mailbox)
}

func (s *c14fStore) VisitMailboxes(f func([]storage.Message) bool) error { return s.inner.VisitMailboxes(f) }

type c14fMsg struct {
	storage.Message
	st *c14fStore
}

func (m *c14fMsg) Source() (io.ReadCloser, error) {
	if f := m.st.call("so"); f != nil {
		return nil, c14fErr(f.err)
	}
	rc, err := m.Message.Source()
	if err != nil {
		return nil, err
	}
	return &c14fReader{rc: rc, st: m.st}, nil
}

type c14fReader struct {
	rc      io.ReadCloser
	st      *c14fStore
	started bool
	fault   *c14fFault
	given   int
}

func (r *c14fReader) Read(p []byte) (int, error) {
	if !r.started {
		r.started = true
		r.fault = r.st.call("sr")
	}
	if r.fault == nil {
		return r.rc.Read(p)
	}
	left := r.fault.after - r.given
	if left <= 0 {
		return 0, c14fErr(r.fault.err)
	}
	if len(p) > left {
		p = p[:left]
	}
	n, err := r.rc.Read(p)
	r.given += n
	if err == io.EOF { // the source is shorter than `after`: everything was delivered, then the error instead of EOF
		return n, c14fErr(r.fault.err)
	}
	return n, err
}

func (r *c14fReader) Close() error { return r.rc.Close() }

// ---------------------------------------------------------------------------------------------- child

type c14fRoute struct {
	handler string
	method  string
	web     bool
	byID    bool
	suffix  string
	body    string   // "" | true
	kinds   []string // the fault kinds the handler can meet
	clop    string   // the Go client's operation for this route ("" = none)
	mutates bool
}

var c14fRoutes = []c14fRoute{
	{"MailboxListV1", "GET", false, false, "", "", []string{"gms"}, "list", false},
	{"MailboxShowV1", "GET", false, true, "", "", []string{"gm", "so", "sr"}, "get", false},
	{"MailboxSourceV1", "GET", false, true, "/source", "", []string{"gm", "so", "sr"}, "source", false},
	{"MailboxMarkSeenV1", "PATCH", false, true, "", "true", []string{"ms"}, "seen", true},
	{"MailboxDeleteV1", "DELETE", false, true, "", "", []string{"rm"}, "delete", true},
	{"MailboxPurgeV1", "DELETE", false, false, "", "", []string{"pm"}, "purge", true},
	{"MailboxMessage", "GET", true, true, "", "", []string{"gm", "so", "sr"}, "", false},
	{"MailboxHTML", "GET", true, true, "/html", "", []string{"gm", "so", "sr"}, "", false},
	{"MailboxSource", "GET", true, true, "/source", "", []string{"gm", "so", "sr"}, "", false},
	{"MailboxViewAttach", "GET", true, true, "/attach/0/f.bin", "", []string{"gm", "so", "sr"}, "", false},
}

var c14fAllKinds = []string{"gms", "gm", "so", "sr", "ms", "rm", "pm"}

type c14fEnv struct {
	*c14Env
	fs       *c14fStore
	rawSrc   map[string]string // "box\x00id" -> the text of a message delivered as raw (non-MIME) bytes
	expDel   int               // `deleted` events owed by the successful requests so far
	boxes    []string
	addrs    []string
	tokens   []string // content tokens of every message delivered in this history
	nCases   int
	nHit     int
	nTorn    int
	nClient  int
	histHits map[string]bool
}

func c14FaultChild(cfgJSON string) {
	zerolog.SetGlobalLevel(zerolog.Disabled)
	zlog.Logger = zerolog.Nop()
	var k c14Cfg
	if err := json.Unmarshal([]byte(cfgJSON), &k); err != nil {
		fmt.Fprintln(os.Stderr, "bad child config:", err)
		os.Exit(2)
	}
	c := core.NewCtx("C14", k.Tier, k.Seed, k.Drv, k.Work)
	if k.Known != "" {
		c.Known = core.LoadKnown(k.Known, "C14")
	}
	c.Res.Rule = "a fault case counts as non-trivial when a store call was actually failed during the request"
	e := &c14fEnv{c14Env: &c14Env{c: c, k: k}}
	e.setup()
	defer e.srv.Close()
	e.m = c.NewModel("rest")
	defer e.m.Close()
	rs := c.SubRng("c14fault-" + k.label())
	t0 := time.Now()
	for h := 0; h < k.Histories; h++ {
		e.faultHistory(rand.New(rand.NewSource(rs.Int63())), h)
	}
	if k.Replay {
	}
	c.Note("fault child: %d histories, %d requests (%d with a failed store call, %d torn, %d through the Go client), %.1fs", k.Histories, e.nCases, e.nHit, e.nTorn, e.nClient, time.Since(t0).Seconds())
	c.Finish(k.Out)
}

var c14fAddrs = []string{"alice@x.org", "Bob@x.org", "carol+tag@x.org", "we!rd@x.org", "d.o.t@x.org", "q?x@y.net", "h#1@y.net"}

// fresh: a new real store behind a new decorator; the model is reset
func (e *c14fEnv) fresh(hidx int) (cleanup func(), ok bool) {
	dir := filepath.Join(e.k.Work, fmt.Sprintf("fault-%s-%d", e.k.Backend, hidx))
	os.MkdirAll(dir, 0o755)
	cleanup = func() { os.RemoveAll(dir) }
	be, err := newBackend(e.k.Backend, 0, 0, dir)
	if err != nil {
		e.c.Note("backend: %v", err)
		return cleanup, false
	}
	e.be = be
	e.fs = &c14fStore{inner: be.st}
	e.mm.Store = e.fs
	e.mm.ExtHost = be.host
	e.gen = map[string]*c14GenMsg{}
	e.rawSrc = map[string]string{}
	e.trace = []string{fmt.Sprintf("# %s store behind the failing decorator", e.k.Backend)}
	e.bad = false
	e.flags = map[string]bool{}
	e.expDel = 0
	e.tokens = nil
	e.histHits = map[string]bool{}
	e.slog.take()
	if a := e.m.Ask("reset naming=" + e.k.Naming); a != "ok" {
		e.diverge("driver", "ok", a)
		return cleanup, false
	}
	return cleanup, true
}

// deliverTracked: e.deliver + remember the content token
func (e *c14fEnv) deliverTracked(r *rand.Rand, addr string, seq int) {
	before := map[string]bool{}
	for k := range e.gen {
		before[k] = true
	}
	e.fs.arm()
	e.deliver(r, addr, seq)
	for k, g := range e.gen {
		if !before[k] && g != nil {
			e.tokens = append(e.tokens, g.token)
		}
	}
}

// deliverRaw: bytes that are NOT a MIME message (enmime.ReadEnvelope fails on them), put into the real store as they are
func (e *c14fEnv) deliverRaw(box string, seq int) {
	tok := fmt.Sprintf("rawtok%dq", seq)
	src := "this is " + tok + " and no header at all\r\njust lines of text\r\n"
	if _, err := enmime.ReadEnvelope(strings.NewReader(src)); err == nil {
		e.c.Note("deliverRaw: enmime accepts the raw bytes; no broken-MIME case in this history")
	}
	before := map[string]bool{}
	ms, _ := e.be.st.GetMessages(box)
	for _, m := range ms {
		before[m.ID()] = true
	}
	date := int64(1700000000 + seq*37)
	d := &message.Delivery{Meta: event.MessageMetadata{Mailbox: box, From: &mail.Address{Address: "raw@src.net"}, To: []*mail.Address{{Address: "raw@dest.org"}},
		Date: time.Unix(date, 0), Subject: "raw " + tok}, Reader: strings.NewReader(src)}
	if _, err := e.be.st.AddMessage(d); err != nil {
		e.diverge("deliver", "AddMessage error: "+err.Error(), "ok")
		return
	}
	ms, _ = e.be.st.GetMessages(box)
	var nm storage.Message
	for _, m := range ms {
		if !before[m.ID()] {
			nm = m
		}
	}
	if nm == nil {
		e.diverge("deliver", "the delivered message is not listed by the store", "listed")
		return
	}
	if e.be.ranks[box] == nil {
		e.be.ranks[box] = map[string]int{}
		e.be.allIDs[box] = map[string]bool{}
	}
	e.be.count[box]++
	e.be.ranks[box][nm.ID()] = e.be.count[box]
	e.be.allIDs[box][nm.ID()] = true
	e.rawSrc[box+"\x00"+nm.ID()] = src // (its token is not in e.tokens: enmime's error text quotes the offending first line)
	e.line("deliver NON-MIME bytes to mailbox %q -> id %s", box, nm.ID())
	ans := e.m.Ask(fmt.Sprintf("add %s %s from=%s to=%s subj=%s date=%d", core.HexS(box), core.HexS(src), core.HexS("raw@src.net"), core.HexList([]string{"raw@dest.org"}), core.HexS("raw "+tok), date))
	e.c.Compared(1)
	if want := fmt.Sprintf("id:%d", e.be.count[box]); ans != want {
		e.diverge("deliver", want, ans)
	}
}

// dump of the whole real store (bypassing the decorator), content hashed
func (e *c14fEnv) dump() string { return e.fullDumpOf("", e.boxes) }

func (e *c14fEnv) nMsgs() int {
	n := 0
	for _, b := range e.boxes {
		ms, _ := e.be.st.GetMessages(b)
		n += len(ms)
	}
	return n
}

func (e *c14fEnv) nDeleted() int {
	e.be.mu.Lock()
	defer e.be.mu.Unlock()
	return len(e.be.deleted)
}

// resolve: the message of the real store the request addresses (nil = missing); "latest" is an alias on the fetching routes only
func (e *c14fEnv) resolve(rt c14fRoute, box, id string) storage.Message {
	ms, _ := e.be.st.GetMessages(box)
	if id == "latest" && !rt.mutates {
		if len(ms) == 0 {
			return nil
		}
		return ms[len(ms)-1]
	}
	for _, m := range ms {
		if m.ID() == id {
			return m
		}
	}
	return nil
}

func c14fSource(m storage.Message) []byte {
	rd, err := m.Source()
	if err != nil {
		return nil
	}
	defer rd.Close()
	b, _ := io.ReadAll(rd)
	return b
}

// leaks: does a non-2xx body carry anything of a stored message?
func (e *c14fEnv) leaks(body []byte) string {
	for _, t := range e.tokens {
		if bytes.Contains(body, []byte(t)) {
			return "the content token " + t + " of a stored message"
		}
	}
	var obj map[string]interface{}
	if json.Unmarshal(body, &obj) == nil {
		if _, ok := obj["id"]; ok {
			return "a JSON object with an \"id\" field"
		}
		if _, ok := obj["mailbox"]; ok {
			return "a JSON object with a \"mailbox\" field"
		}
	}
	var arr []map[string]interface{}
	if json.Unmarshal(body, &arr) == nil && len(arr) > 0 {
		return "a JSON array of objects"
	}
	return ""
}

func c14fModelFaults(fs []c14fFault, pass int) (string, int) {
	p := []string{}
	after := 0
	seen := map[string]bool{}
	for _, f := range fs {
		if f.k != pass || seen[f.kind] {
			continue
		}
		seen[f.kind] = true
		p = append(p, f.kind+":"+f.err)
		if f.kind == "sr" {
			after = f.after
		}
	}
	if len(p) == 0 {
		return "-", 0
	}
	return strings.Join(p, ","), after
}

// tornSource: a source handler whose READER was failed after at least one delivered byte.  The two source handlers stream the store's reader
// into the ResponseWriter (io.Copy): by then the 200 header and the bytes read so far are out, and the wrapper can only append its error text.
// C14 quantifies over mailbox histories, not over I/O faults inside a read, so this is documented behaviour and not a finding (the model has it:
// Props/C14Fault.torn_iff / torn_answer, counter-witness source_handlers_stream); what IS required of such an answer is that the bytes delivered
// before the failure are a prefix of the stored source — nothing made up, nothing of another message (oracle torn-stream-is-a-prefix).
func (e *c14fEnv) tornSource(rt c14fRoute, hits []c14fFault, srcLen int) bool {
	if rt.suffix != "/source" {
		return false
	}
	for _, h := range hits {
		if h.kind == "sr" && h.after > 0 && srcLen > 0 {
			return true
		}
	}
	return false
}

// one request under the armed faults (`pass` = 1: first request after arming, 2: the same request again), raw HTTP or through the Go client
func (e *c14fEnv) request(rt c14fRoute, name, id string, faults []c14fFault, pass int, viaClient bool) {
	box, canon := e.boxOf(name)
	sub := "/api/v1/mailbox/"
	if rt.web {
		sub = "/serve/mailbox/"
	}
	path := sub + url.PathEscape(name)
	if rt.byID {
		path += "/" + url.PathEscape(id) + rt.suffix
	}
	wire := e.prefix(path)
	fl := []string{}
	for _, f := range faults {
		fl = append(fl, f.String())
	}
	what := rt.method + " " + wire
	if viaClient {
		what = fmt.Sprintf("client.%s(%q, %q)", rt.clop, name, id)
	}
	e.line("%s   [faults %s; request %d after arming]", what, strings.Join(fl, " "), pass)
	// ---- what the real store holds right now (implementation only)
	var target storage.Message
	var tsrc []byte
	envOK := true
	if canon && rt.byID {
		target = e.resolve(rt, box, id)
		if target != nil {
			tsrc = c14fSource(target)
			if _, err := enmime.ReadEnvelope(bytes.NewReader(tsrc)); err != nil {
				envOK = false
			}
		}
	}
	dumpBefore := e.dump()
	nBefore := e.nMsgs()
	delBefore := e.nDeleted()
	e.fs.take()
	e.takeObs()
	e.slog.take()
	// ---- the request
	status := 0
	var rb []byte
	ctype := ""
	var cerr error
	var chs []*client.MessageHeader
	var cmsg *client.Message
	var cbuf *bytes.Buffer
	if viaClient {
		switch rt.clop {
		case "list":
			chs, cerr = e.cl.ListMailbox(name)
		case "get":
			cmsg, cerr = e.cl.GetMessage(name, id)
		case "source":
			cbuf, cerr = e.cl.GetMessageSource(name, id)
		case "seen":
			cerr = e.cl.MarkSeen(name, id)
		case "delete":
			cerr = e.cl.DeleteMessage(name, id)
		case "purge":
			cerr = e.cl.PurgeMailbox(name)
		}
		e.rec.take()
		e.nClient++
	} else {
		var body io.Reader
		if rt.body == "true" {
			body = strings.NewReader(`{"seen":true}`)
		}
		req, err := http.NewRequest(rt.method, e.srv.URL+wire, body)
		if err != nil {
			e.line("request not constructible: %v", err)
			return
		}
		resp, err := e.raw.Do(req)
		if err != nil {
			e.fs.take()
			e.c.Fail("no-handler-panic", e.caseLines(), what+": the connection was dropped: "+err.Error()+"; server log: "+c14Trunc(e.slog.take(), 400), "")
			return
		}
		rb, _ = io.ReadAll(resp.Body)
		resp.Body.Close()
		status = resp.StatusCode
		ctype = resp.Header.Get("Content-Type")
	}
	log, hits := e.fs.take()
	obs := e.takeObs()
	e.nCases++
	e.c.H("fault:route:" + rt.handler)
	if len(hits) > 0 {
		e.nHit++
		for _, h := range hits {
			e.c.H("fault:hit:" + h.kind + ":" + h.err)
			e.histHits[rt.handler+"/"+h.kind+":"+h.err] = true
		}
	}
	superfluous := false
	if l := e.slog.take(); l != "" {
		// net/http logs "superfluous response.WriteHeader call" when http.Error is called after the body was begun: the symptom of a torn
		// answer (checked below as such), not a panic
		rest := []string{}
		for _, ln := range strings.Split(strings.TrimSpace(l), "\n") {
			if strings.Contains(ln, "superfluous response.WriteHeader") {
				superfluous = true
				continue
			}
			rest = append(rest, ln)
		}
		if len(rest) > 0 {
			e.c.Fail("no-handler-panic", e.caseLines(), what+": server log: "+c14Trunc(strings.Join(rest, "\n"), 500), "")
			return
		}
	}
	if viaClient {
		st := c14ClientStatus(cerr)
		if strings.HasPrefix(st, "transport:") {
			e.c.Fail("no-handler-panic", e.caseLines(), what+": "+cerr.Error(), "")
			return
		}
		if st == "undecodable" {
			status = 200 // the server said 200 and sent something the client could not decode
		} else {
			status, _ = strconv.Atoi(st)
		}
	}
	routed := len(obs) > 0 && obs[0].route == rt.handler
	if !routed {
		e.line("   not routed to %s (%s): skipped", rt.handler, c14EncObs(obs))
		return
	}
	dumpAfter := e.dump()
	delAfter := e.nDeleted()
	calls := []string{}
	failedMut := false
	for _, l := range log {
		kind := l[:strings.Index(l, ":")]
		calls = append(calls, kind)
	}
	for _, h := range hits {
		if h.kind == "ms" || h.kind == "rm" || h.kind == "pm" {
			failedMut = true
		}
	}
	e.line("   -> %d %s   store calls: %s", status, c14Trunc(strings.TrimSpace(string(rb)), 70), strings.Join(log, " "))
	ok2xx := status/100 == 2
	torn := e.tornSource(rt, hits, len(tsrc))
	// ---- oracles (implementation only)
	if torn {
		e.c.H("fault:torn-source-stream(documented, outside C14's quantifier)")
		if !viaClient && ok2xx {
			n := 0
			for n < len(rb) && n < len(tsrc) && rb[n] == tsrc[n] {
				n++
			}
			after := 0
			for _, h := range hits {
				if h.kind == "sr" {
					after = h.after
				}
			}
			if n < after && n < len(tsrc) {
				e.c.Fail("torn-stream-is-a-prefix", e.caseLines(), fmt.Sprintf("%s: the reader delivered %d bytes before it failed; the response agrees with the stored source for %d bytes only: %q", what, after, n, c14Trunc(string(rb), 120)), "")
			}
		}
	}
	if len(hits) > 0 && ok2xx && !torn {
		e.c.Fail("fault-is-not-success", e.caseLines(), fmt.Sprintf("%s: the store call %s was failed during the request and the answer is %d %s", what, hits[0], status, c14Trunc(string(rb), 120)), "")
	}
	if !ok2xx || failedMut || !rt.mutates {
		if dumpAfter != dumpBefore {
			e.c.Fail("failed-request-changes-nothing", e.caseLines(), fmt.Sprintf("%s answered %d (failed mutating call: %v) and the store changed:\nbefore:\n%s\nafter:\n%s", what, status, failedMut, c14Trunc(dumpBefore, 700), c14Trunc(dumpAfter, 700)), "")
		}
		if delAfter != delBefore && delAfter > e.expDel {
			e.c.Fail("failed-request-changes-nothing", e.caseLines(), fmt.Sprintf("%s answered %d and a `deleted` event was emitted (%d events, %d owed)", what, status, delAfter, e.expDel), "")
		}
	}
	if rt.byID && canon {
		saidNE := false
		for _, h := range hits {
			if h.err == "ne" {
				saidNE = true
			}
		}
		if status == 404 && target != nil && !saidNE {
			e.c.Fail("missing-is-404-only-when-missing", e.caseLines(), fmt.Sprintf("%s is answered 404 although the store holds message %q of %q and no failed call said ErrNotExist (failed: %v)", what, target.ID(), box, hits), "")
		}
		if target == nil && len(hits) == 0 && status != 404 {
			e.c.Fail("missing-is-404-only-when-missing", e.caseLines(), fmt.Sprintf("%s addresses a message the store does not hold, no store call was failed, and the answer is %d", what, status), "")
		}
		e.c.H("fault:missing-checked")
	}
	if viaClient && len(hits) > 0 {
		half := ""
		switch {
		case cerr == nil:
			half = "no error"
		case chs != nil:
			half = fmt.Sprintf("an error AND %d headers", len(chs))
		case cmsg != nil:
			half = "an error AND a message"
		case cbuf != nil && cbuf.Len() > 0:
			half = fmt.Sprintf("an error AND %d bytes", cbuf.Len())
		}
		if half != "" {
			got := ""
			if cbuf != nil {
				got = fmt.Sprintf("; the buffer holds %d bytes: %q", cbuf.Len(), c14Trunc(cbuf.String(), 90))
			}
			if !torn {
				e.c.Fail("client-reports-the-error", e.caseLines(), fmt.Sprintf("%s: the store call %s was failed and the client returned %s%s", what, hits[0], half, got), "")
			}
		}
	}
	if !viaClient && !ok2xx {
		if lk := e.leaks(rb); lk != "" {
			e.c.Fail("no-partial-body", e.caseLines(), fmt.Sprintf("%s answered %d with a body carrying %s: %s", what, status, lk, c14Trunc(string(rb), 200)), "")
		}
	}
	// ---- the model
	mf, after := c14fModelFaults(faults, pass)
	idTok, natt := "junk", 0
	if canon {
		idTok = e.idTok(box, id)
		if !rt.byID {
			idTok = "junk"
		}
		natt = e.nattOf(box, id)
	}
	mbody := "absent"
	if rt.body == "true" {
		mbody = "true"
	}
	num := "bad"
	if strings.HasPrefix(rt.suffix, "/attach/") {
		num = strings.Split(rt.suffix, "/")[2]
	}
	env := "ok"
	if !envOK {
		env = "bad"
	}
	line := fmt.Sprintf("freq %s %s %s body=%s num=%s natt=%d %s f=%s after=%d env=%s", rt.handler, core.HexS(name), idTok, mbody, num, natt, ipTable(name), mf, after, env)
	ans := e.m.Ask(line)
	e.line("   model: %s -> %s", line, c14Trunc(ans, 160))
	f := strings.Fields(ans)
	if len(f) != 4 {
		e.diverge("fault-model", fmt.Sprintf("%d", status), ans)
		return
	}
	mst, mpl, mtorn, mcalls := f[0], f[1], strings.TrimPrefix(f[2], "torn="), strings.TrimPrefix(f[3], "calls=")
	e.c.Compared(2)
	if mst != strconv.Itoa(status) {
		e.diverge("fault-status", fmt.Sprintf("%d %s", status, c14Trunc(string(rb), 120)), mst+" "+c14Trunc(mpl, 120))
		return
	}
	ic := "-"
	if len(calls) > 0 {
		ic = strings.Join(calls, ",")
	}
	if ic != mcalls {
		e.diverge("fault-calls", ic, mcalls)
		return
	}
	if superfluous != (mtorn == "1") {
		e.diverge("fault-torn", fmt.Sprintf("http.Error after the body was begun: %v", superfluous), "torn="+mtorn)
		return
	}
	if mst == "200" && (mpl == "OK" && rt.mutates) {
		// a mutation that succeeded: the events it owes
		e.expDel += nBefore - e.nMsgs()
	}
	if viaClient {
		// what the client hands out for a clean 200
		if mst == "200" && mtorn == "0" {
			switch rt.clop {
			case "source":
				if cbuf == nil {
					e.diverge("fault-client-payload", "nil buffer", c14Trunc(mpl, 120))
				} else if "src:"+core.Hex(cbuf.Bytes()) != mpl {
					e.diverge("fault-client-payload", fmt.Sprintf("%d bytes", cbuf.Len()), c14Trunc(mpl, 120))
				}
			case "get":
				if cmsg == nil || "msg:"+core.HexS(cmsg.Mailbox)+":"+e.metaOfJSON(cmsg.Mailbox, cmsg.ID, cmsg.From, cmsg.To, cmsg.Subject, cmsg.Date, cmsg.Size, cmsg.Seen) != mpl {
					e.diverge("fault-client-payload", "GetMessage result", c14Trunc(mpl, 200))
				}
			}
			e.c.Compared(1)
		}
		if mtorn == "1" {
			e.nTorn++
		}
		return
	}
	if mst != "200" {
		return
	}
	e.c.Compared(1)
	if mtorn == "1" {
		e.nTorn++
		e.c.H("fault:torn")
		// the body is the delivered prefix of the source followed by the wrapper's error text
		pre := core.UnHex(strings.TrimPrefix(mpl, "src:"))
		rest := strings.TrimPrefix(string(rb), pre)
		if !strings.HasPrefix(string(rb), pre) || rest == "" || !strings.Contains(rest, errC14fIO.Error()) && !strings.Contains(rest, "message does not exist") {
			e.diverge("fault-torn-body", c14Trunc(string(rb), 300), "the prefix "+c14Trunc(pre, 200)+" followed by the error text")
		}
		if !strings.HasPrefix(ctype, "text/plain") {
			e.diverge("fault-torn-body", "Content-Type "+ctype, "text/plain")
		}
		return
	}
	vars := []string{name}
	if rt.byID {
		vars = append(vars, id)
		if num != "bad" {
			vars = append(vars, num, "f.bin")
		}
	}
	got := e.decodePayload(rt.handler, vars, rb)
	want := mpl
	if strings.HasSuffix(got, ":[]") && strings.HasPrefix(got, "list:*") && strings.HasSuffix(mpl, ":[]") {
		want = got
	}
	if got != want {
		e.diverge("fault-payload", c14Trunc(got, 500), c14Trunc(want, 500))
	}
}

// the by-id strings to ask for in mailbox `box`: an existing id ("" = pick one when the request is made), "latest", an id no message has
func (e *c14fEnv) idsFor(r *rand.Rand, box string) []string {
	return []string{"", "latest", e.be.realID(box, 7000+r.Intn(100))}
}

// existing: the id of a message the mailbox holds now (the oldest, the newest or one between)
func (e *c14fEnv) existing(r *rand.Rand, box string) string {
	ms, _ := e.be.st.GetMessages(box)
	if len(ms) == 0 {
		return "none"
	}
	return ms[r.Intn(len(ms))].ID()
}

// topUp: keep at least three messages in every mailbox (successful deletes / purges of control cases consume them)
func (e *c14fEnv) topUp(r *rand.Rand, seq *int) {
	for i, box := range e.boxes {
		ms, _ := e.be.st.GetMessages(box)
		for n := len(ms); n < 3; n++ {
			*seq++
			e.deliverTracked(r, e.addrs[i], *seq)
		}
	}
}

func (e *c14fEnv) faultHistory(r *rand.Rand, hidx int) {
	cleanup, ok := e.fresh(hidx)
	defer cleanup()
	if !ok {
		return
	}
	perm := r.Perm(len(c14fAddrs))
	e.addrs, e.boxes = nil, nil
	for _, i := range perm {
		rc, err := e.mm.AddrPolicy.NewRecipient(c14fAddrs[i])
		if err != nil {
			continue
		}
		dup := false
		for _, b := range e.boxes {
			if b == rc.Mailbox {
				dup = true
			}
		}
		if dup {
			continue
		}
		e.addrs = append(e.addrs, c14fAddrs[i])
		e.boxes = append(e.boxes, rc.Mailbox)
		if len(e.boxes) == 2 {
			break
		}
	}
	if len(e.boxes) < 2 {
		e.c.Note("fault history: fewer than two mailboxes under naming %s", e.k.Naming)
		return
	}
	seq := 0
	for i := range e.boxes {
		for j := 0; j < 3; j++ {
			seq++
			e.deliverTracked(r, e.addrs[i], seq)
		}
	}
	seq++
	e.deliverRaw(e.boxes[0], seq) // the newest message of the first mailbox is not MIME: "latest" there meets enmime's error
	if e.bad {
		return
	}
	errs := []string{"io", "ne", "wne"}
	for _, rt := range c14fRoutes {
		for bi := range e.boxes {
			if bi == 1 && r.Intn(3) != 0 { // the second mailbox (all MIME) gets a third of the matrix
				continue
			}
			name := e.addrs[bi]
			box := e.boxes[bi]
			ids := []string{""}
			if rt.byID {
				ids = e.idsFor(r, box)
			}
			for _, idKind := range ids {
				e.topUp(r, &seq)
				id := idKind
				if rt.byID && idKind == "" {
					id = e.existing(r, box)
				}
				// every kind the handler can meet × every error at this request; several at once; a kind it never meets (control); a fault
				// that hits the REPEATED request; no fault at all (control) — the cases that may succeed (and consume a message) come last
				var cases [][]c14fFault
				for _, kind := range rt.kinds {
					for _, er := range errs {
						if kind == "sr" {
							n := 64
							if m := e.resolve(rt, box, id); m != nil {
								n = int(m.Size())
							}
							for _, after := range []int{0, 1, 7, n / 2, n - 1, n, n + 9} {
								if er != "io" && after != 0 && after != 7 {
									continue
								}
								cases = append(cases, []c14fFault{{kind, 1, er, after}})
							}
							continue
						}
						cases = append(cases, []c14fFault{{kind, 1, er, 0}})
					}
				}
				if len(rt.kinds) > 1 {
					cases = append(cases,
						[]c14fFault{{"so", 1, errs[r.Intn(3)], 0}, {"sr", 1, "io", 4}},
						[]c14fFault{{"gm", 1, errs[r.Intn(3)], 0}, {"so", 1, errs[r.Intn(3)], 0}, {"sr", 1, "io", 0}},
						[]c14fFault{{"sr", 1, "io", 1 + r.Intn(40)}, {"ms", 1, "io", 0}, {"rm", 1, "ne", 0}})
				} else {
					cases = append(cases, []c14fFault{{rt.kinds[0], 1, errs[r.Intn(3)], 0}, {"gm", 1, "io", 0}, {"gms", 1, "ne", 0}})
				}
				for tries := 0; tries < 8; tries++ {
					k := c14fAllKinds[r.Intn(len(c14fAllKinds))]
					meets := false
					for _, x := range rt.kinds {
						if x == k {
							meets = true
						}
					}
					if !meets {
						cases = append(cases, []c14fFault{{k, 1, errs[r.Intn(3)], 3}})
						break
					}
				}
				for _, kind := range rt.kinds {
					cases = append(cases, []c14fFault{{kind, 2, errs[r.Intn(3)], 5}})
				}
				cases = append(cases, nil)
				for _, fs := range cases {
					for _, viaClient := range []bool{false, true} {
						if viaClient && rt.clop == "" {
							continue
						}
						if e.bad {
							return
						}
						if rt.mutates {
							e.topUp(r, &seq)
							if rt.byID && idKind == "" && e.resolve(rt, box, id) == nil {
								id = e.existing(r, box) // a successful delete consumed it
							}
						}
						e.fs.arm(fs...)
						e.request(rt, name, id, fs, 1, viaClient)
						second := false
						for _, f := range fs {
							if f.k == 2 {
								second = true
							}
						}
						if second && !e.bad {
							e.request(rt, name, id, fs, 2, viaClient)
						}
						e.fs.arm()
					}
				}
			}
		}
	}
	// a name ExtractMailbox rejects: 500 and no store call at all
	e.fs.arm(c14fFault{"gm", 1, "io", 0})
	e.request(c14fRoutes[1], "..x..@", "latest", []c14fFault{{"gm", 1, "io", 0}}, 1, false)
	e.fs.arm()
	if e.bad {
		return
	}
	// ---- events owed and final store
	evs := e.be.waitEvents(e.expDel)
	if len(evs) != e.expDel {
		e.c.Fail("failed-request-changes-nothing", e.caseLines(), fmt.Sprintf("%d `deleted` events were emitted during the history, the successful deletes and purges removed %d messages", len(evs), e.expDel), "")
	}
	boxesDump := []string{}
	e.be.st.VisitMailboxes(func(ms []storage.Message) bool {
		if len(ms) > 0 {
			p := []string{}
			for _, m := range ms {
				p = append(p, e.metaOfStore(m))
			}
			boxesDump = append(boxesDump, core.HexS(ms[0].Mailbox())+":["+strings.Join(p, "|")+"]")
		}
		return true
	})
	sort.Strings(boxesDump)
	got := "boxes:" + strings.Join(boxesDump, "&")
	want := e.m.Ask("dump")
	e.c.Compared(1)
	if got != want {
		e.line("dump")
		e.diverge("fault-final-store", c14Trunc(got, 800), c14Trunc(want, 800))
	}
	keys := []string{}
	for k := range e.histHits {
		keys = append(keys, k)
	}
	sort.Strings(keys)
	e.c.Count(fmt.Sprintf("fault-history %s #%d: %s", e.k.label(), hidx, strings.Join(keys, " ")), len(keys) > 20)
	if hidx == 0 {
		e.c.Sample(map[string]interface{}{"config": e.k.label(), "leg": "fault", "trace": e.trace[max(0, len(e.trace)-12):]})
	}
	if len(e.trace) > 400 { // keep the case lines of later failures short
		e.trace = e.trace[:8]
	}
}

