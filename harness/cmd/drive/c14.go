package main

// C14 — REST / web APIs and the Go client report and change exactly the store's state.
//
//   The web.Router is a package global on which routes can only be registered once, so every configuration
//   (naming mode × back-end × base path) runs in its own CHILD PROCESS: this binary re-executed with
//   VERIF_C14_CHILD=<json>.  A child builds the routes exactly as server.FullAssembly does (webui.SetupRoutes +
//   rest.SetupRoutes under the prefixer, web.NewServer), serves web.Router from ONE httptest.Server, and drives it
//   with raw HTTP requests (RFC 3986 path-segment escaping and QueryEscape style) and with the REAL pkg/rest/client,
//   over a real StoreManager on the real memory / file store.  Each child writes a core.Result; the parent merges.
//
//   T2: every request is also sent to the Lean model (mode "rest"): router outcome (route name + variables, 404, 301,
//   405), the client's wire path, status class + decoded payload (ids → ranks, dates → unix), final store dump.
//   Oracles (implementation only): list = store; get-after-delete = 404; no dropped connection / handler panic;
//   every client operation has the effect its name says, for every name that received mail; attachment links of the
//   GET payload resolve.

import (
	"bytes"
	"context"
	"crypto/md5"
	"encoding/hex"
	"encoding/json"
	"fmt"
	"io"
	"log"
	"math/rand"
	"net/http"
	"net/http/httptest"
	"net/mail"
	"net/url"
	"os"
	"os/exec"
	"path/filepath"
	"regexp"
	"sort"
	"strconv"
	"strings"
	"sync"
	"time"

	"github.com/inbucket/inbucket/v3/pkg/config"
	"github.com/inbucket/inbucket/v3/pkg/extension/event"
	"github.com/inbucket/inbucket/v3/pkg/message"
	"github.com/inbucket/inbucket/v3/pkg/msghub"
	"github.com/inbucket/inbucket/v3/pkg/policy"
	"github.com/inbucket/inbucket/v3/pkg/rest"
	"github.com/inbucket/inbucket/v3/pkg/rest/client"
	"github.com/inbucket/inbucket/v3/pkg/rest/model"
	"github.com/inbucket/inbucket/v3/pkg/server/web"
	"github.com/inbucket/inbucket/v3/pkg/storage"
	"github.com/inbucket/inbucket/v3/pkg/stringutil"
	"github.com/inbucket/inbucket/v3/pkg/webui"
	"github.com/rs/zerolog"
	zlog "github.com/rs/zerolog/log"

	"verif/harness/internal/core"
)

func init() {
	if cfg := os.Getenv("VERIF_C14_CHILD"); cfg != "" {
		c14Child(cfg)
		os.Exit(0)
	}
	register("C14", runC14)
}

type c14Cfg struct {
	Naming    string `json:"naming"`
	Backend   string `json:"backend"`
	Base      string `json:"base"`
	Seed      int64  `json:"seed"`
	Tier      string `json:"tier"`
	Drv       string `json:"drv"`
	Work      string `json:"work"`
	Known     string `json:"known"`
	Out       string `json:"out"`
	Histories int    `json:"histories"`
	Replay    bool   `json:"replay"` // this child replays the witnesses of the open known findings
}

func (k c14Cfg) label() string { return fmt.Sprintf("%s/%s/base=%q", k.Naming, k.Backend, k.Base) }

// ---------------------------------------------------------------------------------------------- parent

func runC14(c *core.Ctx) {
	c.Res.Rule = "a history counts as non-trivial when it contains a delivery, a 404 for a missing message and a mutation (seen/delete/purge) through HTTP or the client"
	exe, err := os.Executable()
	if err != nil {
		c.Diverge("child-process", []string{"os.Executable"}, err.Error(), "")
		return
	}
	knownPath := ""
	for i, a := range os.Args {
		if (a == "-known" || a == "--known") && i+1 < len(os.Args) {
			knownPath = os.Args[i+1]
		}
		if strings.HasPrefix(a, "-known=") || strings.HasPrefix(a, "--known=") {
			knownPath = a[strings.Index(a, "=")+1:]
		}
	}
	var cfgs []c14Cfg
	n := 0
	for _, naming := range []string{"local", "full", "domain"} {
		for _, be := range []string{"mem", "file"} {
			for _, base := range []string{"", "/pre/fix"} {
				cfgs = append(cfgs, c14Cfg{Naming: naming, Backend: be, Base: base, Seed: c.Seed, Tier: c.Tier, Drv: c.DrvPath,
					Work: filepath.Join(c.Workdir, fmt.Sprintf("c14-%d", n)), Known: knownPath,
					Out: filepath.Join(c.Workdir, fmt.Sprintf("c14-%d.json", n)), Histories: c.Scale(260, 4000),
					Replay: naming == "local"})
				n++
			}
		}
	}
	results := make([]*core.Result, len(cfgs))
	errs := make([]string, len(cfgs))
	core.Parallel(len(cfgs), 12, func(i int) {
		k := cfgs[i]
		os.MkdirAll(k.Work, 0o755)
		js, _ := json.Marshal(k)
		ctx, cancel := context.WithTimeout(context.Background(), time.Duration(c.Scale(240, 1500))*time.Second)
		defer cancel()
		cmd := exec.CommandContext(ctx, exe)
		cmd.Env = append(os.Environ(), "VERIF_C14_CHILD="+string(js))
		var eb bytes.Buffer
		cmd.Stderr = &eb
		cmd.Stdout = &eb
		if err := cmd.Run(); err != nil {
			errs[i] = fmt.Sprintf("child %s: %v: %s", k.label(), err, c14Tail(eb.String(), 1500))
			return
		}
		b, err := os.ReadFile(k.Out)
		if err != nil {
			errs[i] = fmt.Sprintf("child %s wrote no result: %v: %s", k.label(), err, c14Tail(eb.String(), 1500))
			return
		}
		var r core.Result
		if err := json.Unmarshal(b, &r); err != nil {
			errs[i] = fmt.Sprintf("child %s result unreadable: %v", k.label(), err)
			return
		}
		results[i] = &r
	})
	seenKnown := map[string]bool{}
	for i, r := range results {
		if errs[i] != "" {
			c.Diverge("child-process", []string{cfgs[i].label()}, errs[i], "a result file")
			continue
		}
		c.Res.Evaluations += r.Evaluations
		c.Res.Distinct += r.Distinct
		c.Res.Compared += r.Compared
		for k, v := range r.Hist {
			c.Res.Hist[k] += v
		}
		for _, s := range r.Samples {
			if len(c.Res.Samples) < 12 && i%4 == 0 {
				c.Res.Samples = append(c.Res.Samples, s)
			}
		}
		for _, d := range r.Divergences {
			if len(c.Res.Divergences) < 20 {
				d.Note = cfgs[i].label()
				c.Res.Divergences = append(c.Res.Divergences, d)
			}
		}
		for _, f := range r.Failures {
			cnt := 0
			for _, g := range c.Res.Failures {
				if g.Oracle == f.Oracle && g.Known == f.Known {
					cnt++
				}
			}
			if cnt < 5 {
				f.Case = append([]string{"config " + cfgs[i].label()}, f.Case...)
				c.Res.Failures = append(c.Res.Failures, f)
			}
		}
		for _, kh := range r.KnownHits {
			if !seenKnown[kh.ID] {
				seenKnown[kh.ID] = true
				c.Res.KnownHits = append(c.Res.KnownHits, kh)
			}
		}
		for _, nt := range r.Notes {
			c.Note("%s: %s", cfgs[i].label(), nt)
		}
	}
	c.Note("%d configurations (naming × back-end × base path), each in its own process around the real web.Router", len(cfgs))
	if f, ok := extra["C14"]; ok {
		f(c)
	}
}

func c14Tail(s string, n int) string {
	if len(s) > n {
		return s[len(s)-n:]
	}
	return s
}

// ---------------------------------------------------------------------------------------------- child

type c14LockedBuf struct {
	mu sync.Mutex
	b  bytes.Buffer
}

func (l *c14LockedBuf) Write(p []byte) (int, error) {
	l.mu.Lock()
	defer l.mu.Unlock()
	return l.b.Write(p)
}
func (l *c14LockedBuf) take() string {
	l.mu.Lock()
	defer l.mu.Unlock()
	s := l.b.String()
	l.b.Reset()
	return s
}

type c14Hop struct {
	method string
	uri    string
	status int
	err    error
}

type c14RecTransport struct {
	mu   sync.Mutex
	hops []c14Hop
}

func (t *c14RecTransport) RoundTrip(req *http.Request) (*http.Response, error) {
	resp, err := http.DefaultTransport.RoundTrip(req)
	h := c14Hop{method: req.Method, uri: req.URL.RequestURI(), err: err}
	if resp != nil {
		h.status = resp.StatusCode
	}
	t.mu.Lock()
	t.hops = append(t.hops, h)
	t.mu.Unlock()
	return resp, err
}
func (t *c14RecTransport) take() []c14Hop {
	t.mu.Lock()
	defer t.mu.Unlock()
	h := t.hops
	t.hops = nil
	return h
}

type c14RouteObs struct {
	route string
	vars  map[string]string
}

// c14GenMsg: what the harness knows about a delivered message
type c14GenMsg struct {
	token string
	html  string   // "" if the message has no HTML part
	atts  []string // attachment contents
	files []string // attachment file names
}

type c14Env struct {
	c       *core.Ctx
	k       c14Cfg
	m       *core.Model
	srv     *httptest.Server
	mm      *message.StoreManager
	conf    *config.Root
	prefix  func(string) string
	raw     *http.Client
	rec     *c14RecTransport
	cl      *client.Client
	lastHs  []*client.MessageHeader // what the last successful client.ListMailbox returned
	lastMsg *client.Message         // what the last successful client.GetMessage returned
	slog    *c14LockedBuf
	obsMu   sync.Mutex
	obs     []c14RouteObs
	baseHex string
	// per history
	be    *backend
	gen   map[string]*c14GenMsg // "box\x00realid"
	trace []string
	bad   bool
	flags map[string]bool
}

func c14Child(cfgJSON string) {
	zerolog.SetGlobalLevel(zerolog.Disabled)
	zlog.Logger = zerolog.Nop()
	var k c14Cfg
	if err := json.Unmarshal([]byte(cfgJSON), &k); err != nil {
		fmt.Fprintln(os.Stderr, "bad child config:", err)
		os.Exit(2)
	}
	c := core.NewCtx("C14", k.Tier, k.Seed, k.Drv, k.Work)
	if k.Known != "" {
		c.Known = core.LoadKnown(k.Known, "C14")
	}
	e := &c14Env{c: c, k: k}
	e.setup()
	defer e.srv.Close()
	e.m = c.NewModel("rest")
	defer e.m.Close()
	e.checkRouteTable()
	e.checkEscapers()
	r := c.SubRng("c14-" + k.label())
	if only := os.Getenv("VERIF_C14_ONLY"); only != "" { // builder's use: one of the trailing legs alone
		switch only {
		case "midwrite":
			e.writesDuringDelivery()
		}
		c.Finish(k.Out)
		return
	}
	for h := 0; h < k.Histories; h++ {
		e.history(r, h)
	}
	if k.Replay {
		e.replayKnown()
	}
	e.bigSources()
	e.overlappingRequests()
	e.writesDuringDelivery() // an API write while a delivery to the same mailbox is in flight (c14_midwrite.go)
	c.Finish(k.Out)
}

// bigSources: the source of a message is served whole whatever its size (the server accepts up to MaxMessageBytes, 10 MB by default):
// through the raw REST route and through the Go client the bytes are the store's, for sizes around 64 KiB, 1 MiB and 4 MiB.
func (e *c14Env) bigSources() {
	dir := filepath.Join(e.k.Work, "fs-big")
	os.MkdirAll(dir, 0o755)
	defer os.RemoveAll(dir)
	be, err := newBackend(e.k.Backend, 0, 0, dir)
	if err != nil {
		return
	}
	e.be = be
	e.mm.Store = be.st
	e.mm.ExtHost = be.host
	e.trace = nil
	for i, n := range []int{65535, 1<<20 - 200, 1<<20 + 1, 4<<20 + 17} {
		head := fmt.Sprintf("From: <big@src.net>\r\nTo: <big@dest.org>\r\nSubject: big %d\r\n\r\n", i)
		line := strings.Repeat("0123456789abcdefghijklmnopqrstuvwxyzABCDEFGHIJKLMNOPQRSTUVWXYZ+/", 1) + "\r\n"
		body := strings.Repeat(line, (n-len(head))/len(line)+1)[:n-len(head)]
		src := head + body
		d := &message.Delivery{Meta: event.MessageMetadata{Mailbox: "big", From: &mail.Address{Address: "big@src.net"}, To: []*mail.Address{{Address: "big@dest.org"}},
			Date: time.Unix(1700000000+int64(i), 0), Subject: fmt.Sprintf("big %d", i)}, Reader: strings.NewReader(src)}
		id, err := be.st.AddMessage(d)
		if err != nil {
			e.c.Note("bigSources: AddMessage(%d bytes): %v", n, err)
			continue
		}
		e.line("deliver a %d-byte message to mailbox big (id %s)", n, id)
		e.c.Compared(2)
		buf, cerr := e.cl.GetMessageSource("big", id)
		if cerr != nil || buf == nil || buf.String() != src {
			got := -1
			if buf != nil {
				got = buf.Len()
			}
			e.fail("client-round-trip", "big", fmt.Sprintf("GetMessageSource(big, %s): err=%v, %d bytes returned, the stored source has %d", id, cerr, got, len(src)))
		}
		resp, herr := e.raw.Get(e.srv.URL + e.prefix("/api/v1/mailbox/big/"+id+"/source"))
		if herr == nil {
			rb, _ := io.ReadAll(resp.Body)
			resp.Body.Close()
			if resp.StatusCode != 200 || string(rb) != src {
				e.fail("source-is-the-stored-source", "big", fmt.Sprintf("GET source of a %d-byte message: status %d, %d bytes", len(src), resp.StatusCode, len(rb)))
			}
		}
		e.c.H("big-source:" + strconv.Itoa(n))
	}
}

func (e *c14Env) setup() {
	k := e.k
	naming := config.LocalNaming
	switch k.Naming {
	case "full":
		naming = config.FullNaming
	case "domain":
		naming = config.DomainNaming
	}
	e.conf = &config.Root{MailboxNaming: naming,
		SMTP: config.SMTP{DefaultAccept: true, DefaultStore: true, Domain: "inbucket"},
		Web:  config.Web{BasePath: k.Base, UIDir: filepath.Join(k.Work, "no-ui")}}
	be, err := newBackend("mem", 0, 0, "")
	if err != nil {
		fmt.Fprintln(os.Stderr, "store:", err)
		os.Exit(2)
	}
	e.mm = &message.StoreManager{AddrPolicy: &policy.Addressing{Config: e.conf}, Store: be.st, ExtHost: be.host}
	// exactly the wiring of server.FullAssembly
	e.prefix = stringutil.MakePathPrefixer(k.Base)
	webui.SetupRoutes(web.Router.PathPrefix(e.prefix("/serve/")).Subrouter())
	rest.SetupRoutes(web.Router.PathPrefix(e.prefix("/api/")).Subrouter())
	web.NewServer(e.conf, e.mm, &msghub.Hub{})
	web.VerifObserve(func(req *http.Request, route string, vars map[string]string) {
		cp := map[string]string{}
		for a, b := range vars {
			cp[a] = b
		}
		e.obsMu.Lock()
		e.obs = append(e.obs, c14RouteObs{route, cp})
		e.obsMu.Unlock()
	})
	e.slog = &c14LockedBuf{}
	e.srv = httptest.NewUnstartedServer(web.Router)
	e.srv.Config.ErrorLog = log.New(e.slog, "", 0)
	e.srv.Start()
	e.raw = &http.Client{Timeout: 20 * time.Second, CheckRedirect: func(*http.Request, []*http.Request) error { return http.ErrUseLastResponse }}
	e.rec = &c14RecTransport{}
	e.cl, err = client.New(e.srv.URL+e.prefix(""), client.WithTransport(e.rec))
	if err != nil {
		fmt.Fprintln(os.Stderr, "client:", err)
		os.Exit(2)
	}
	segs := []string{}
	for _, s := range strings.Split(strings.Trim(k.Base, "/"), "/") {
		if s != "" {
			segs = append(segs, s)
		}
	}
	e.baseHex = core.HexList(segs)
}

func (e *c14Env) takeObs() []c14RouteObs {
	e.obsMu.Lock()
	defer e.obsMu.Unlock()
	o := e.obs
	e.obs = nil
	return o
}

var c14TplVar = regexp.MustCompile(`\{[^}]+\}`)

// the registered route table answers like the model's: every named route, instantiated, is routed to itself
func (e *c14Env) checkRouteTable() {
	for _, t := range web.VerifRouteTable() {
		name, methods, tpl := t[0], t[1], t[2]
		path := c14TplVar.ReplaceAllString(tpl, "v")
		for _, m := range strings.Split(methods, ",") {
			line := fmt.Sprintf("route %s %s base=%s", m, core.HexS(path), e.baseHex)
			want := "hit " + name + " "
			got := e.m.Ask(line)
			e.c.Compared(1)
			e.c.H("route-table")
			if !strings.HasPrefix(got, want) {
				e.c.Diverge("route-table", []string{"registered: " + strings.Join(t[:], " "), line}, want+"…", got)
			}
		}
	}
}

func (e *c14Env) checkEscapers() {
	r := e.c.SubRng("c14-esc")
	for i := 0; i < 300; i++ {
		n := r.Intn(8)
		b := make([]byte, n)
		for j := range b {
			b[j] = byte(r.Intn(256))
			if i < 256 && j == 0 {
				b[j] = byte(i)
			}
		}
		s := string(b)
		e.c.Compared(2)
		if got, want := e.m.Ask("qesc "+core.HexS(s)), core.HexS(url.QueryEscape(s)); got != want {
			e.c.Diverge("QueryEscape", []string{"qesc " + core.HexS(s)}, want, got)
		}
		if got, want := e.m.Ask("pesc "+core.HexS(s)), core.HexS(url.PathEscape(s)); got != want {
			e.c.Diverge("PathEscape", []string{"pesc " + core.HexS(s)}, want, got)
		}
	}
}

// ---- addresses → mailbox names that can receive mail

var c14Locals = []string{"alice", "bob", "x.y", "a%41", "a%2fb", "q?x", "h#1", "am&p", "k=v", "s;c", "we!rd$'*^_`{|}~", "a/b", "a/1", "sl//sh", "d/./t",
	"UPPER", "plus+ext", "a%zz", "100%", "tilde~", "-dash-"}
var c14Domains = []string{"example.com", "Sub.Example.ORG", "[1.2.3.4]", "[IPv6:::1]", "under_score.net"}

func (e *c14Env) pickAddresses(r *rand.Rand) []string {
	n := 3 + r.Intn(3)
	res := []string{}
	for len(res) < n {
		l := c14Locals[r.Intn(len(c14Locals))]
		d := c14Domains[r.Intn(len(c14Domains))]
		if e.k.Naming == "local" && r.Intn(3) > 0 {
			d = "example.com"
		}
		res = append(res, l+"@"+d)
	}
	return res
}

func (e *c14Env) line(format string, a ...interface{}) {
	e.trace = append(e.trace, fmt.Sprintf(format, a...))
}

func (e *c14Env) caseLines() []string {
	t := append([]string{"config " + e.k.label()}, e.trace...)
	if len(t) > 60 {
		t = append(t[:8], append([]string{"…"}, t[len(t)-50:]...)...)
	}
	return t
}

func (e *c14Env) diverge(corr, impl, mod string) {
	e.bad = true
	e.c.Diverge(corr, e.caseLines(), impl, mod)
}

// knownFor: id of the open known finding whose predicate a witness with this mailbox name meets
func (e *c14Env) knownFor(oracle, name string) string {
	switch oracle {
	case "client-round-trip":
		if strings.Contains(name, "/") {
			return "F-14c"
		}
	case "attachment-link-resolves":
		if strings.ContainsAny(name, "%?#/") || e.k.Base != "" {
			return "F-14d"
		}
	}
	return ""
}

func (e *c14Env) fail(oracle, name, detail string) {
	e.c.Fail(oracle, e.caseLines(), detail, e.knownFor(oracle, name))
}

// ---- messages

func (e *c14Env) buildSource(r *rand.Rand, seq int) (src string, g *c14GenMsg, from string, to []string, subj string) {
	g = &c14GenMsg{token: fmt.Sprintf("tok%dx%d", seq, r.Intn(1e6))}
	from = fmt.Sprintf("s%d@src.net", r.Intn(5))
	nto := 1 + r.Intn(2)
	for i := 0; i < nto; i++ {
		to = append(to, fmt.Sprintf("rcpt%d@dest.org", r.Intn(9)))
	}
	subj = fmt.Sprintf("subj %d é", r.Intn(1000))
	var b strings.Builder
	fmt.Fprintf(&b, "From: Sender %d <%s>\r\n", seq, from)
	tl := []string{}
	for _, t := range to {
		tl = append(tl, "<"+t+">")
	}
	fmt.Fprintf(&b, "To: %s\r\nSubject: %s\r\nMIME-Version: 1.0\r\n", strings.Join(tl, ", "), subj)
	if r.Intn(3) == 0 {
		fmt.Fprintf(&b, "Content-Type: text/plain; charset=utf-8\r\n\r\ntext-%s\r\n", g.token)
		return b.String(), g, from, to, subj
	}
	// attachment parts: named and NAMELESS, `attachment` and `inline` dispositions, in any order.  message.Attachments() — what both the REST view
	// and the web UI number — lists the inline parts first (document order), then the attachment parts (document order).
	natt := r.Intn(4)
	g.html = "<p>html-" + g.token + "</p>"
	fmt.Fprintf(&b, "Content-Type: multipart/mixed; boundary=BB%s\r\n\r\n", g.token)
	fmt.Fprintf(&b, "--BB%s\r\nContent-Type: text/plain; charset=utf-8\r\n\r\ntext-%s\r\n", g.token, g.token)
	fmt.Fprintf(&b, "--BB%s\r\nContent-Type: text/html; charset=utf-8\r\n\r\n%s\r\n", g.token, g.html)
	var inl, att [][2]string // (file name, content)
	for i := 0; i < natt; i++ {
		fn := fmt.Sprintf("f%d.bin", i)
		if r.Intn(3) == 0 {
			fn = "" // no filename= and no name=: enmime reports FileName ""
		}
		content := fmt.Sprintf("ATT-%s-%d", g.token, i)
		inline := r.Intn(3) == 0
		ctype, disp := "application/octet-stream", "attachment"
		if inline {
			ctype, disp = "image/png", "inline"
			inl = append(inl, [2]string{fn, content})
		} else {
			if r.Intn(3) == 0 {
				ctype = "application/pdf"
			}
			att = append(att, [2]string{fn, content})
		}
		switch {
		case fn == "":
			fmt.Fprintf(&b, "--BB%s\r\nContent-Type: %s\r\nContent-Disposition: %s\r\n\r\n%s\r\n", g.token, ctype, disp, content)
		case r.Intn(4) == 0: // the name only as a Content-Type parameter
			fmt.Fprintf(&b, "--BB%s\r\nContent-Type: %s; name=\"%s\"\r\nContent-Disposition: %s\r\n\r\n%s\r\n", g.token, ctype, fn, disp, content)
		default:
			fmt.Fprintf(&b, "--BB%s\r\nContent-Type: %s\r\nContent-Disposition: %s; filename=\"%s\"\r\n\r\n%s\r\n", g.token, ctype, disp, fn, content)
		}
	}
	for _, p := range append(inl, att...) {
		g.files = append(g.files, p[0])
		g.atts = append(g.atts, p[1])
	}
	fmt.Fprintf(&b, "--BB%s--\r\n", g.token)
	return b.String(), g, from, to, subj
}

func c14AddrOnly(s string) string {
	i := strings.LastIndex(s, "<")
	j := strings.LastIndex(s, ">")
	if i >= 0 && j > i {
		return s[i+1 : j]
	}
	return s
}

func (e *c14Env) metaOfStore(m storage.Message) string {
	from := ""
	if m.From() != nil {
		from = m.From().Address
	}
	tos := []string{}
	for _, t := range m.To() {
		tos = append(tos, t.Address)
	}
	seen := 0
	if m.Seen() {
		seen = 1
	}
	return fmt.Sprintf("%d/%d/%d/%s/%s/%s/%d", e.be.rank(m.Mailbox(), m.ID()), seen, m.Size(), core.HexS(from), core.HexList(tos), core.HexS(m.Subject()), m.Date().Unix())
}

func (e *c14Env) metaOfJSON(box, id, from string, to []string, subj string, date time.Time, size int64, seen bool) string {
	tos := []string{}
	for _, t := range to {
		tos = append(tos, c14AddrOnly(t))
	}
	s := 0
	if seen {
		s = 1
	}
	return fmt.Sprintf("%d/%d/%d/%s/%s/%s/%d", e.be.rank(box, id), s, size, core.HexS(c14AddrOnly(from)), core.HexList(tos), core.HexS(subj), date.Unix())
}

func (e *c14Env) storeListing(box string) string {
	ms, err := e.be.st.GetMessages(box)
	if err != nil {
		return "store-error:" + err.Error()
	}
	p := []string{}
	for _, m := range ms {
		p = append(p, e.metaOfStore(m))
	}
	return "[" + strings.Join(p, "|") + "]"
}

// deliver one message to the mailbox of address addr; tells the model
func (e *c14Env) deliver(r *rand.Rand, addr string, seq int) {
	rcpt, err := e.mm.AddrPolicy.NewRecipient(addr)
	if err != nil {
		e.line("deliver %q: NewRecipient rejects: %v", addr, err)
		return
	}
	box := rcpt.Mailbox
	src, g, from, to, subj := e.buildSource(r, seq)
	viaManager := r.Intn(10) < 3
	before := map[string]bool{}
	ms, _ := e.be.st.GetMessages(box)
	for _, m := range ms {
		before[m.ID()] = true
	}
	date := int64(1700000000 + seq*37)
	if viaManager {
		origin, oerr := e.mm.AddrPolicy.ParseOrigin(from)
		if oerr != nil {
			e.line("ParseOrigin %q: %v", from, oerr)
			return
		}
		if err := e.mm.Deliver(origin, []*policy.Recipient{rcpt}, "Received: from verif", []byte(src)); err != nil {
			e.diverge("deliver", "Deliver error: "+err.Error(), "ok")
			return
		}
	} else {
		tos := make([]*mail.Address, len(to))
		for i, t := range to {
			tos[i] = &mail.Address{Address: t}
		}
		d := &message.Delivery{Meta: event.MessageMetadata{Mailbox: box, From: &mail.Address{Address: from}, To: tos,
			Date: time.Unix(date, 0), Subject: subj}, Reader: strings.NewReader(src)}
		if _, err := e.be.st.AddMessage(d); err != nil {
			e.diverge("deliver", "AddMessage error: "+err.Error(), "ok")
			return
		}
	}
	ms, _ = e.be.st.GetMessages(box)
	var nm storage.Message
	for _, m := range ms {
		if !before[m.ID()] {
			nm = m
		}
	}
	if nm == nil {
		e.diverge("deliver", "the delivered message is not listed by the store", "listed")
		return
	}
	if e.be.ranks[box] == nil {
		e.be.ranks[box] = map[string]int{}
		e.be.allIDs[box] = map[string]bool{}
	}
	e.be.count[box]++
	e.be.ranks[box][nm.ID()] = e.be.count[box]
	e.be.allIDs[box][nm.ID()] = true
	e.gen[box+"\x00"+nm.ID()] = g
	stored := []byte(src)
	sdate := date
	if viaManager { // the Received header carries the wall clock: take source and date as stored
		if rd, err := nm.Source(); err == nil {
			stored, _ = io.ReadAll(rd)
			rd.Close()
		}
		sdate = nm.Date().Unix()
		if !bytes.HasSuffix(stored, []byte(src)) {
			e.diverge("deliver", "stored source does not end with the delivered bytes", "Return-Path + Received + source")
		}
	}
	lineM := fmt.Sprintf("add %s %s from=%s to=%s subj=%s date=%d", core.HexS(box), core.Hex(stored), core.HexS(from), core.HexList(to), core.HexS(subj), sdate)
	if len(g.files) > 0 {
		e.line("deliver to %q (mailbox %q, via manager=%v) -> id %s; file names of its attachment parts, inline parts first: %q", addr, box, viaManager, nm.ID(), g.files)
	} else {
		e.line("deliver to %q (mailbox %q, via manager=%v) -> id %s", addr, box, viaManager, nm.ID())
	}
	ans := e.m.Ask(lineM)
	e.c.Compared(1)
	if want := fmt.Sprintf("id:%d", e.be.count[box]); ans != want {
		e.diverge("deliver", want, ans)
	}
	e.flags["deliver"] = true
	e.c.H("op:deliver")
}

// ---- requests

type c14ReqSpec struct {
	handler string // route name the request is meant for
	method  string
	name    string // the name as put into the URL (before escaping)
	id      string
	suffix  string // "", "/source", "/html", "/attach/<num>/<file>"
	num     string
	body    string // absent | true | false | junk
	esc     string // path | query
	web     bool
}

func (e *c14Env) boxOf(name string) (string, bool) {
	b, err := e.mm.MailboxForAddress(name)
	return b, err == nil
}

// idTok: the model token of an id string addressed to mailbox `box`
func (e *c14Env) idTok(box, id string) string {
	if id == "latest" {
		return "latest"
	}
	if r, ok := e.be.ranks[box][id]; ok {
		return fmt.Sprintf("n%d", r)
	}
	return "junk"
}

func (e *c14Env) nattOf(box, id string) int {
	real := id
	if id == "latest" {
		ms, _ := e.be.st.GetMessages(box)
		if len(ms) == 0 {
			return 0
		}
		real = ms[len(ms)-1].ID()
	}
	if g := e.gen[box+"\x00"+real]; g != nil {
		return len(g.atts)
	}
	return 0
}

func c14StatusOfRoute(r string) int {
	switch {
	case r == "notfound":
		return 404
	case r == "redirect":
		return 301
	case r == "mna":
		return 405
	case r == "badreq":
		return 400
	}
	return 0
}

var c14VarOrder = []string{"name", "id", "num", "file"}

func c14EncObs(o []c14RouteObs) string {
	if len(o) == 0 {
		return "unrouted"
	}
	vs := []string{}
	for _, k := range c14VarOrder {
		if v, ok := o[0].vars[k]; ok {
			vs = append(vs, core.HexS(v))
		}
	}
	l := "_"
	if len(vs) > 0 {
		l = strings.Join(vs, ",")
	}
	return "hit " + o[0].route + " " + l
}

// modelReq: ask the model what the handler `route` does with these variables; returns (status, payload)
func (e *c14Env) modelReq(route string, vars []string, body string) (string, string) {
	name := vars[0]
	id := ""
	if len(vars) > 1 {
		id = vars[1]
	}
	num := "bad"
	if len(vars) > 2 {
		if n, err := strconv.ParseUint(vars[2], 10, 32); err == nil {
			num = strconv.FormatUint(n, 10)
		}
	}
	box, ok := e.boxOf(name)
	tok := "junk"
	natt := 0
	if ok {
		tok = e.idTok(box, id)
		natt = e.nattOf(box, id)
	}
	mb := body
	if mb == "junk" || mb == "" {
		mb = "absent"
	}
	line := fmt.Sprintf("req %s %s %s body=%s num=%s natt=%d %s", route, core.HexS(name), tok, mb, num, natt, ipTable(name))
	ans := e.m.Ask(line)
	e.line("   model: %s -> %s", line, c14Trunc(ans, 200))
	sp := strings.SplitN(ans, " ", 2)
	if len(sp) != 2 {
		return ans, ""
	}
	return sp[0], sp[1]
}

func c14Trunc(s string, n int) string {
	if len(s) > n {
		return s[:n] + "…"
	}
	return s
}

// decodePayload: canonical payload of a 200 answer of `route`
func (e *c14Env) decodePayload(route string, vars []string, body []byte) string {
	switch route {
	case "MailboxListV1":
		var hs []*model.JSONMessageHeaderV1
		if err := json.Unmarshal(body, &hs); err != nil {
			return "undecodable:" + err.Error()
		}
		box := "*"
		p := []string{}
		for _, h := range hs {
			box = core.HexS(h.Mailbox)
			if h.PosixMillis != h.Date.UnixNano()/1000000 {
				return "posix-millis-mismatch"
			}
			p = append(p, e.metaOfJSON(h.Mailbox, h.ID, h.From, h.To, h.Subject, h.Date, h.Size, h.Seen))
		}
		return "list:" + box + ":[" + strings.Join(p, "|") + "]"
	case "MailboxShowV1":
		var m model.JSONMessageV1
		if err := json.Unmarshal(body, &m); err != nil {
			return "undecodable:" + err.Error()
		}
		return "msg:" + core.HexS(m.Mailbox) + ":" + e.metaOfJSON(m.Mailbox, m.ID, m.From, m.To, m.Subject, m.Date, m.Size, m.Seen)
	case "MailboxMessage":
		var m struct {
			Mailbox string    `json:"mailbox"`
			ID      string    `json:"id"`
			From    string    `json:"from"`
			To      []string  `json:"to"`
			Subject string    `json:"subject"`
			Date    time.Time `json:"date"`
			Size    int64     `json:"size"`
			Seen    bool      `json:"seen"`
		}
		if err := json.Unmarshal(body, &m); err != nil {
			return "undecodable:" + err.Error()
		}
		return "msg:" + core.HexS(m.Mailbox) + ":" + e.metaOfJSON(m.Mailbox, m.ID, m.From, m.To, m.Subject, m.Date, m.Size, m.Seen)
	case "MailboxSourceV1", "MailboxSource":
		return "src:" + core.Hex(body)
	case "MailboxPurgeV1", "MailboxMarkSeenV1", "MailboxDeleteV1":
		var s string
		if err := json.Unmarshal(body, &s); err != nil || s != "OK" {
			return "not-OK:" + c14Trunc(string(body), 40)
		}
		return "OK"
	case "MailboxHTML", "MailboxViewAttach":
		// which message was addressed is known from the request; the CONTENT is checked by an oracle
		box, _ := e.boxOf(vars[0])
		real := vars[1]
		if real == "latest" {
			if ms, _ := e.be.st.GetMessages(box); len(ms) > 0 {
				real = ms[len(ms)-1].ID()
			}
		}
		rk := e.be.rank(box, real)
		g := e.gen[box+"\x00"+real]
		if route == "MailboxHTML" {
			if g != nil && strings.TrimSpace(string(body)) != g.html {
				e.fail("html-is-the-message's", box, fmt.Sprintf("GET …/html of %q/%s returned %q, the message's HTML part is %q", box, real, c14Trunc(string(body), 80), g.html))
			}
			return fmt.Sprintf("html:%d", rk)
		}
		n, _ := strconv.Atoi(vars[2])
		if g != nil && n < len(g.atts) && string(body) != g.atts[n] {
			e.fail("attachment-is-the-message's", box, fmt.Sprintf("attachment %d of %q/%s returned %q, want %q", n, box, real, c14Trunc(string(body), 80), g.atts[n]))
		}
		return fmt.Sprintf("att:%d:%d", rk, n)
	}
	return "?"
}

func (e *c14Env) checkPanic(what string) {
	if l := e.slog.take(); l != "" {
		e.c.Fail("no-handler-panic", e.caseLines(), what+": server log: "+c14Trunc(l, 400), "")
	}
}

// send one raw HTTP request, compare with the model, run the oracles
func (e *c14Env) rawRequest(rs c14ReqSpec) {
	esc := url.PathEscape
	if rs.esc == "query" {
		esc = url.QueryEscape
	}
	sub := "/api/v1/mailbox/"
	if rs.web {
		sub = "/serve/mailbox/"
	}
	path := sub + esc(rs.name)
	if rs.id != "" || rs.suffix != "" {
		path += "/" + rs.id + rs.suffix
	}
	wire := e.prefix(path)
	var body io.Reader
	switch rs.body {
	case "true":
		body = strings.NewReader(`{"seen":true}`)
	case "false":
		body = strings.NewReader(`{"seen":false}`)
	case "junk":
		body = strings.NewReader(`seen=true`)
	}
	req, err := http.NewRequest(rs.method, e.srv.URL+wire, body)
	if err != nil {
		e.line("%s %s: request not constructible: %v", rs.method, wire, err)
		return
	}
	wire = req.URL.RequestURI() // what net/http writes into the request line
	e.line("%s %s   (name %q, %s-escaped; body %s)", rs.method, wire, rs.name, rs.esc, rs.body)
	// implementation-only: does the addressed message exist right now?
	missing := false
	if bx, ok := e.boxOf(rs.name); ok && rs.id != "" {
		missing = true
		ms, _ := e.be.st.GetMessages(bx)
		for _, m := range ms {
			if m.ID() == rs.id || (rs.id == "latest" && rs.handler != "MailboxMarkSeenV1" && rs.handler != "MailboxDeleteV1") {
				missing = false
			}
		}
	}
	e.takeObs()
	resp, err := e.raw.Do(req)
	e.c.H("op:raw:" + rs.handler)
	if err != nil {
		e.c.Fail("no-dropped-connection", e.caseLines(), "transport error: "+err.Error()+" log: "+c14Trunc(e.slog.take(), 300), "")
		return
	}
	rb, _ := io.ReadAll(resp.Body)
	resp.Body.Close()
	e.checkPanic(rs.method + " " + wire)
	obsL := e.takeObs()
	obs := c14EncObs(obsL)
	// oracle: a request for a message that does not exist is answered 404
	if missing && len(obsL) > 0 && obsL[0].route == rs.handler && obsL[0].vars["name"] == rs.name && obsL[0].vars["id"] == rs.id {
		decided := (rs.handler == "MailboxMarkSeenV1" && rs.body != "true")
		if rs.handler == "MailboxViewAttach" {
			if _, perr := strconv.ParseUint(rs.num, 10, 32); perr != nil {
				decided = true
			}
		}
		if !decided {
			e.c.H("missing-checked")
			if resp.StatusCode != 404 {
				e.fail("missing-is-404", rs.name, fmt.Sprintf("%s %s addresses a message the store does not hold and is answered %d %s", rs.method, wire, resp.StatusCode, c14Trunc(string(rb), 80)))
			}
		}
	}
	// ---- router
	mr := e.m.Ask(fmt.Sprintf("route %s %s base=%s", rs.method, core.HexS(wire), e.baseHex))
	e.c.Compared(1)
	if strings.HasPrefix(mr, "hit ") {
		if obs != mr {
			e.diverge("route", obs, mr)
			return
		}
	} else {
		if obs != "unrouted" || resp.StatusCode != c14StatusOfRoute(mr) {
			e.diverge("route", fmt.Sprintf("%s status %d", obs, resp.StatusCode), mr)
		}
		e.c.H("router:" + mr)
		return
	}
	f := strings.Fields(mr)
	route := f[1]
	vars := []string{}
	for _, h := range strings.Split(f[2], ",") {
		vars = append(vars, core.UnHex(h))
	}
	if route != rs.handler {
		e.c.H("misrouted")
	}
	// ---- handler
	st, pl := e.modelReq(route, vars, rs.body)
	e.c.Compared(1)
	e.c.H(fmt.Sprintf("status:%d", resp.StatusCode))
	if st != strconv.Itoa(resp.StatusCode) {
		e.diverge("status", fmt.Sprintf("%d %s", resp.StatusCode, c14Trunc(string(rb), 120)), st+" "+c14Trunc(pl, 120))
		return
	}
	if resp.StatusCode == 404 {
		e.flags["404"] = true
	}
	if resp.StatusCode != 200 {
		return
	}
	got := e.decodePayload(route, vars, rb)
	want := pl
	if strings.HasSuffix(got, ":[]") && strings.HasPrefix(got, "list:*") {
		want = regexp.MustCompile(`^list:[0-9a-f-]+:`).ReplaceAllString(pl, "list:*:")
	}
	e.c.Compared(1)
	if got != want {
		e.diverge("payload", c14Trunc(got, 600), c14Trunc(want, 600))
		return
	}
	box, _ := e.boxOf(vars[0])
	switch route {
	case "MailboxListV1":
		// oracle: what list returns is what the store holds
		if i := strings.Index(got, ":["); i >= 0 && got[i+1:] != e.storeListing(box) {
			e.fail("list-equals-store", box, "HTTP listing "+c14Trunc(got, 300)+" store "+c14Trunc(e.storeListing(box), 300))
		}
	case "MailboxShowV1":
		e.checkShowBody(box, vars[1], rb)
	case "MailboxDeleteV1":
		e.flags["mut"] = true
		e.getAfterDelete(rs, vars)
	case "MailboxPurgeV1":
		e.flags["mut"] = true
	case "MailboxMarkSeenV1":
		if rs.body == "true" {
			e.flags["mut"] = true
		}
	}
}

func (e *c14Env) getAfterDelete(rs c14ReqSpec, vars []string) {
	wire := e.prefix("/api/v1/mailbox/" + url.PathEscape(vars[0]) + "/" + vars[1])
	resp, err := e.raw.Get(e.srv.URL + wire)
	if err != nil {
		e.c.Fail("no-dropped-connection", e.caseLines(), "GET after DELETE: "+err.Error(), "")
		return
	}
	resp.Body.Close()
	e.takeObs()
	if resp.StatusCode != 404 {
		e.fail("get-after-delete-404", vars[0], fmt.Sprintf("GET %s after a successful DELETE answered %d", wire, resp.StatusCode))
	}
}

// the GET payload carries the message's body and working attachment links
func (e *c14Env) checkShowBody(box, id string, rb []byte) {
	var m model.JSONMessageV1
	if json.Unmarshal(rb, &m) != nil {
		return
	}
	g := e.gen[box+"\x00"+m.ID]
	if g == nil {
		return
	}
	if m.Body == nil || !strings.Contains(m.Body.Text, "text-"+g.token) {
		e.fail("get-returns-the-message", box, fmt.Sprintf("GET %q/%s: body text lacks the message's token %s", box, id, g.token))
	}
	// what is returned: exactly the stored message's parts, in message.Attachments() order, each with its own name and checksum
	exact := len(m.Attachments) == len(g.atts)
	if !exact {
		e.fail("get-returns-the-message", box, fmt.Sprintf("GET %q/%s: the payload lists %d attachments, the stored message has %d (file names %q)", box, id, len(m.Attachments), len(g.atts), g.files))
	}
	for i, a := range m.Attachments {
		if !exact {
			break
		}
		sum := md5.Sum([]byte(g.atts[i]))
		if a.FileName != g.files[i] || a.MD5 != hex.EncodeToString(sum[:]) {
			exact = false
			e.fail("get-returns-the-message", box, fmt.Sprintf("GET %q/%s: attachment %d of the payload is file %q md5 %s; attachment %d of the stored message is file %q md5 %s", box, id, i, a.FileName, a.MD5,
				i, g.files[i], hex.EncodeToString(sum[:])))
		}
	}
	// where the links lead: the link the payload gives for a NAMED part returns that part's content (the generated names are unique within a message)
	for _, a := range m.Attachments {
		if a.FileName == "" {
			// a part without a file name: the route /attach/{num}/{file} needs a non-empty last segment, so the link the payload carries for such a part
			// (…/attach/<i>/) cannot resolve on the tree as it is; the property speaks of what is RETURNED (count, names, checksum: checked above)
			e.c.H("attachment-link:nameless-part")
			if resp, err := e.raw.Get(a.DownloadLink); err == nil {
				io.Copy(io.Discard, resp.Body)
				resp.Body.Close()
				e.c.H(fmt.Sprintf("attachment-link:nameless-part-answers-%d", resp.StatusCode))
			}
			e.takeObs()
			continue
		}
		j := -1
		for k, fn := range g.files {
			if fn == a.FileName {
				j = k
			}
		}
		if j < 0 {
			continue // a name the message does not have: reported above
		}
		e.c.H("attachment-link")
		for _, l := range []string{a.DownloadLink, a.ViewLink} {
			ok, detail := e.fetchLink(l, g.atts[j])
			if !ok {
				e.fail("attachment-link-resolves", box, fmt.Sprintf("mailbox %q id %s: the link %q the GET payload gives for attachment %q (part %d of %d, file names %q): %s", box, m.ID, l, a.FileName, j, len(g.atts), g.files, detail))
				return
			}
		}
	}
	if !exact {
		return
	}
	// the web UI's view of the same message numbers the same parts in the same order (its attach route is what the REST links point into)
	resp, err := e.raw.Get(e.srv.URL + e.prefix("/serve/mailbox/"+url.PathEscape(box)+"/"+m.ID))
	e.takeObs()
	if err != nil {
		return
	}
	wb, _ := io.ReadAll(resp.Body)
	resp.Body.Close()
	var wm struct {
		Attachments []struct {
			ID       string `json:"id"`
			FileName string `json:"filename"`
		} `json:"attachments"`
	}
	if resp.StatusCode != 200 || json.Unmarshal(wb, &wm) != nil {
		return // names the web route cannot address are another oracle's matter
	}
	e.c.H("attachment-views-compared")
	if len(wm.Attachments) != len(m.Attachments) {
		e.fail("rest-and-webui-number-the-same-attachments", box, fmt.Sprintf("message %q/%s: the REST view lists %d attachments, the web UI view %d", box, m.ID, len(m.Attachments), len(wm.Attachments)))
		return
	}
	for i, a := range wm.Attachments {
		if a.ID != strconv.Itoa(i) || a.FileName != m.Attachments[i].FileName {
			e.fail("rest-and-webui-number-the-same-attachments", box, fmt.Sprintf("message %q/%s: attachment %d is %q in the REST view, the web UI view has id %s file %q at that place", box, m.ID, i, m.Attachments[i].FileName, a.ID, a.FileName))
			return
		}
	}
}

func (e *c14Env) fetchLink(link, want string) (bool, string) {
	resp, err := e.raw.Get(link)
	e.takeObs()
	if err != nil {
		return false, "cannot be fetched: " + err.Error()
	}
	b, _ := io.ReadAll(resp.Body)
	resp.Body.Close()
	if resp.StatusCode != 200 {
		return false, fmt.Sprintf("answers %d", resp.StatusCode)
	}
	if string(b) != want {
		return false, fmt.Sprintf("returns %q, the attachment is %q", c14Trunc(string(b), 60), want)
	}
	return true, ""
}

var c14CodeRe = regexp.MustCompile(`\b([1-5][0-9][0-9])\b`)

func c14ClientStatus(err error) string {
	if err == nil {
		return "200"
	}
	s := err.Error()
	if strings.Contains(s, "unexpected") {
		if m := c14CodeRe.FindStringSubmatch(s[strings.Index(s, "unexpected"):]); m != nil {
			return m[1]
		}
	}
	if strings.Contains(s, "json:") || strings.Contains(s, "invalid character") || strings.Contains(s, "unmarshal") {
		return "undecodable"
	}
	return "transport:" + s
}

// one operation of the real client; compared with the model and checked against its name
func (e *c14Env) clientOp(op, name, id string) { e.clientOpVia(op, name, id, nil) }

// clientOpVia: the same operation reached through a METHOD OF AN OBJECT the client handed out earlier — via is a *client.MessageHeader
// (from ListMailbox: GetMessage / GetSource / Delete) or a *client.Message (from GetMessage: GetSource / Delete); nil = the Client's own method.
// "Every operation offered by the bundled Go client has the effect its name says": these seven are operations too, and what they ask the
// server for is decided by the (Mailbox, ID) the server put into the object.
func (e *c14Env) clientOpVia(op, name, id string, via interface{}) {
	e.rec.take()
	e.takeObs()
	how := ""
	switch via.(type) {
	case *client.MessageHeader:
		how = "header."
	case *client.Message:
		how = "message."
	}
	e.line("client.%s%s(%q, %q)", how, op, name, id)
	box, canon := e.boxOf(name)
	var before []storage.Message
	if canon {
		before, _ = e.be.st.GetMessages(box)
	}
	var err error
	var hs []*client.MessageHeader
	var msg *client.Message
	var srcBuf *bytes.Buffer
	switch v := via.(type) {
	case *client.MessageHeader:
		switch op {
		case "get":
			msg, err = v.GetMessage()
		case "source":
			srcBuf, err = v.GetSource()
		case "delete":
			err = v.Delete()
		}
	case *client.Message:
		switch op {
		case "source":
			srcBuf, err = v.GetSource()
		case "delete":
			err = v.Delete()
		}
	default:
		switch op {
		case "list":
			hs, err = e.cl.ListMailbox(name)
		case "get":
			msg, err = e.cl.GetMessage(name, id)
		case "source":
			srcBuf, err = e.cl.GetMessageSource(name, id)
		case "seen":
			err = e.cl.MarkSeen(name, id)
		case "delete":
			err = e.cl.DeleteMessage(name, id)
		case "purge":
			err = e.cl.PurgeMailbox(name)
		}
	}
	e.lastHs, e.lastMsg = nil, nil
	if err == nil {
		e.lastHs, e.lastMsg = hs, msg
	}
	e.c.H("op:client:" + how + op)
	hops := e.rec.take()
	obs := e.takeObs()
	e.checkPanic("client." + op)
	st := c14ClientStatus(err)
	if strings.HasPrefix(st, "transport:") && len(hops) > 0 && hops[0].err != nil {
		e.c.Fail("no-dropped-connection", e.caseLines(), "client."+op+": "+err.Error(), "")
		return
	}
	// ---- wire path
	mw := e.m.Ask(fmt.Sprintf("client %s %s %s base=%s", op, core.HexS(name), core.HexS(id), e.baseHex))
	e.c.Compared(1)
	if mw == "clienterr" {
		if len(hops) != 0 {
			e.diverge("client-wire", hops[0].uri, mw)
		}
		return
	}
	if len(hops) == 0 {
		e.diverge("client-wire", "no request sent: "+fmt.Sprint(err), mw)
		return
	}
	wire := core.UnHex(strings.TrimPrefix(mw, "wire "))
	if hops[0].uri != wire {
		e.diverge("client-wire", hops[0].uri, wire)
		return
	}
	// ---- router
	mr := e.m.Ask(fmt.Sprintf("route %s %s base=%s", hops[0].method, core.HexS(wire), e.baseHex))
	e.c.Compared(1)
	intended := map[string]string{"list": "MailboxListV1", "get": "MailboxShowV1", "source": "MailboxSourceV1", "seen": "MailboxMarkSeenV1", "delete": "MailboxDeleteV1", "purge": "MailboxPurgeV1"}[op]
	roundTrip := false
	if strings.HasPrefix(mr, "hit ") {
		if len(obs) == 0 || c14EncObs(obs[:1]) != mr {
			e.diverge("client-route", c14EncObs(obs), mr)
			return
		}
		f := strings.Fields(mr)
		vars := []string{}
		for _, h := range strings.Split(f[2], ",") {
			vars = append(vars, core.UnHex(h))
		}
		roundTrip = f[1] == intended && vars[0] == name && (len(vars) == 1 || vars[1] == id)
		body := "absent"
		if f[1] == "MailboxMarkSeenV1" {
			body = "true"
		}
		mst, mpl := e.modelReq(f[1], vars, body) // keeps the model's store in step whatever was reached
		e.c.Compared(1)
		want := mst
		if mst == "200" && f[1] != intended && (op == "list" || op == "get") {
			want = "undecodable|200" // another handler's JSON
		}
		statusOK := strings.Contains("|"+want+"|", "|"+st+"|")
		if !statusOK {
			e.diverge("client-status", st+" ("+fmt.Sprint(err)+")", mst+" "+c14Trunc(mpl, 100)) // the oracle below still runs
		}
		if st == "404" {
			e.flags["404"] = true
		}
		if statusOK && roundTrip && st == "200" {
			got := ""
			switch op {
			case "list":
				p := []string{}
				bx := "*"
				for _, h := range hs {
					bx = core.HexS(h.Mailbox)
					p = append(p, e.metaOfJSON(h.Mailbox, h.ID, h.From, h.To, h.Subject, h.Date, h.Size, h.Seen))
				}
				got = "list:" + bx + ":[" + strings.Join(p, "|") + "]"
				if bx == "*" {
					mpl = regexp.MustCompile(`^list:[0-9a-f-]+:`).ReplaceAllString(mpl, "list:*:")
				}
			case "get":
				got = "msg:" + core.HexS(msg.Mailbox) + ":" + e.metaOfJSON(msg.Mailbox, msg.ID, msg.From, msg.To, msg.Subject, msg.Date, msg.Size, msg.Seen)
			case "source":
				got = "src:" + core.Hex(srcBuf.Bytes())
			default:
				got = "OK"
			}
			e.c.Compared(1)
			if got != mpl {
				e.diverge("client-payload", c14Trunc(got, 600), c14Trunc(mpl, 600))
				return
			}
		}
	} else {
		if len(obs) != 0 && hops[0].status != 301 {
			e.diverge("client-route", c14EncObs(obs), mr)
			return
		}
		if hops[0].status != c14StatusOfRoute(mr) {
			e.diverge("client-route", fmt.Sprintf("first hop status %d", hops[0].status), mr)
			return
		}
		e.c.H("router:" + mr)
	}
	// ---- oracle: the operation has the effect its name says, for every name that can receive mail
	if !canon || name != box || e.be.count[box] == 0 {
		return // not the canonical name of a mailbox that received mail
	}
	if op != "list" && op != "purge" && (id == "" || id == "." || id == "..") {
		e.c.H("client-id-cleaned-away")
		return // JoinPath cleans these ids away (Props.C14.client_round_trip_fails_on_bad_id); no store hands them out
	}
	e.c.H("client-effect-checked")
	after, _ := e.be.st.GetMessages(box)
	findID := func(ms []storage.Message, id string) storage.Message {
		if id == "latest" && len(ms) > 0 {
			return ms[len(ms)-1]
		}
		for _, m := range ms {
			if m.ID() == id {
				return m
			}
		}
		return nil
	}
	target := findID(before, id)
	switch op {
	case "list":
		p := []string{}
		for _, h := range hs {
			p = append(p, e.metaOfJSON(h.Mailbox, h.ID, h.From, h.To, h.Subject, h.Date, h.Size, h.Seen))
		}
		if err != nil || "["+strings.Join(p, "|")+"]" != e.storeListing(box) {
			e.fail("client-round-trip", name, fmt.Sprintf("ListMailbox(%q): err=%v listing %s, the store holds %s", name, err, c14Trunc(strings.Join(p, "|"), 200), c14Trunc(e.storeListing(box), 200)))
		}
	case "get":
		if target == nil {
			if err == nil {
				e.fail("client-round-trip", name, fmt.Sprintf("GetMessage(%q, %q) succeeded for a message the store does not hold", name, id))
			}
			return
		}
		g := e.gen[box+"\x00"+target.ID()]
		if err != nil || msg == nil || msg.ID != target.ID() || msg.Mailbox != box || (g != nil && (msg.Body == nil || !strings.Contains(msg.Body.Text, g.token))) {
			e.fail("client-round-trip", name, fmt.Sprintf("GetMessage(%q, %q): err=%v, does not return the stored message %s", name, id, err, target.ID()))
		}
	case "source":
		if target == nil {
			if err == nil {
				e.fail("client-round-trip", name, fmt.Sprintf("GetMessageSource(%q, %q) succeeded for a message the store does not hold", name, id))
			}
			return
		}
		var want []byte
		if rd, serr := target.Source(); serr == nil {
			want, _ = io.ReadAll(rd)
			rd.Close()
		}
		if err != nil || srcBuf == nil || !bytes.Equal(srcBuf.Bytes(), want) {
			e.fail("client-round-trip", name, fmt.Sprintf("GetMessageSource(%q, %q): err=%v, bytes differ from the store's source", name, id, err))
		}
	case "seen":
		if target == nil || id == "latest" {
			return
		}
		e.flags["mut"] = true
		m := findID(after, id)
		if err != nil || m == nil || !m.Seen() {
			e.fail("client-round-trip", name, fmt.Sprintf("MarkSeen(%q, %q): err=%v, the store's seen flag is not set", name, id, err))
		}
	case "delete":
		if target == nil || id == "latest" {
			return
		}
		e.flags["mut"] = true
		if err != nil || findID(after, id) != nil || len(after) != len(before)-1 {
			e.fail("client-round-trip", name, fmt.Sprintf("DeleteMessage(%q, %q): err=%v, store had %d messages, has %d, target still there=%v", name, id, err, len(before), len(after), findID(after, id) != nil))
		}
	case "purge":
		e.flags["mut"] = true
		if err != nil || len(after) != 0 {
			e.fail("client-round-trip", name, fmt.Sprintf("PurgeMailbox(%q): err=%v, the store still holds %d messages", name, err, len(after)))
		}
	}
}

// ---- one history

func c14Recase(s string) string {
	b := []byte(s)
	for i := range b {
		if b[i] >= 'a' && b[i] <= 'z' && i%2 == 0 {
			b[i] -= 32
		}
	}
	return string(b)
}

func c14PlusExt(s string) string {
	if i := strings.LastIndex(s, "@"); i > 0 {
		return s[:i] + "+tag" + s[i:]
	}
	return s + "+tag"
}

func (e *c14Env) history(r *rand.Rand, hidx int) {
	dir := filepath.Join(e.k.Work, fmt.Sprintf("fs-%d", hidx))
	os.MkdirAll(dir, 0o755)
	defer os.RemoveAll(dir)
	be, err := newBackend(e.k.Backend, 0, 0, dir)
	if err != nil {
		e.c.Note("backend: %v", err)
		return
	}
	e.be = be
	e.mm.Store = be.st
	e.mm.ExtHost = be.host
	e.gen = map[string]*c14GenMsg{}
	e.trace = nil
	e.bad = false
	e.flags = map[string]bool{}
	if a := e.m.Ask("reset naming=" + e.k.Naming); a != "ok" {
		e.diverge("driver", "ok", a)
		return
	}
	addrs := e.pickAddresses(r)
	boxes := []string{}
	for _, a := range addrs {
		if rc, err := e.mm.AddrPolicy.NewRecipient(a); err == nil {
			boxes = append(boxes, rc.Mailbox)
		}
	}
	if len(boxes) == 0 {
		return
	}
	nOps := 12 + r.Intn(e.c.Scale(30, 45))
	seq := 0
	for i := 0; i < nOps && !e.bad; i++ {
		box := boxes[r.Intn(len(boxes))]
		// the name put into the URL
		name := box
		switch x := r.Intn(20); {
		case x == 0:
			name = c14Recase(box)
		case x == 1:
			name = c14PlusExt(box)
		case x == 2:
			name = "nobody" + strconv.Itoa(r.Intn(3))
		case x == 3:
			name = []string{"a..b", ".lead", "trail.", "sp ace", "q\"uote", "ü", "%", "a@b@c", "@", "x@", "..", "."}[r.Intn(12)]
		}
		// an id
		pickID := func() string {
			n := e.be.count[box]
			switch y := r.Intn(12); {
			case y == 0:
				return "latest"
			case y == 1:
				return e.be.realID(box, 9000+r.Intn(5))
			case y == 2:
				return []string{"zz-top", "0", "1e3", "LATEST", "source", "20060102T150405-0001", "..", ".", "%41", "a b"}[r.Intn(10)]
			case n == 0:
				return e.be.realID(box, 1+r.Intn(3))
			default:
				return e.be.realID(box, 1+r.Intn(n))
			}
		}
		esc := "path"
		if r.Intn(3) == 0 {
			esc = "query"
		}
		x := r.Intn(100)
		switch {
		case x < 26:
			seq++
			e.deliver(r, addrs[r.Intn(len(addrs))], seq)
		case x < 34:
			e.rawRequest(c14ReqSpec{handler: "MailboxListV1", method: "GET", name: name, esc: esc})
		case x < 42:
			e.rawRequest(c14ReqSpec{handler: "MailboxShowV1", method: "GET", name: name, id: pickID(), esc: esc})
		case x < 47:
			e.rawRequest(c14ReqSpec{handler: "MailboxSourceV1", method: "GET", name: name, id: pickID(), suffix: "/source", esc: esc})
		case x < 54:
			e.rawRequest(c14ReqSpec{handler: "MailboxMarkSeenV1", method: "PATCH", name: name, id: pickID(), body: []string{"true", "true", "true", "false", "absent", "junk"}[r.Intn(6)], esc: esc})
		case x < 61:
			id := pickID()
			e.rawRequest(c14ReqSpec{handler: "MailboxDeleteV1", method: "DELETE", name: name, id: id, esc: esc})
			if r.Intn(3) == 0 { // twice
				e.rawRequest(c14ReqSpec{handler: "MailboxDeleteV1", method: "DELETE", name: name, id: id, esc: esc})
			}
		case x < 63:
			e.rawRequest(c14ReqSpec{handler: "MailboxPurgeV1", method: "DELETE", name: name, esc: esc})
		case x < 66:
			e.rawRequest(c14ReqSpec{handler: "MailboxMessage", method: "GET", name: name, id: pickID(), esc: esc, web: true})
		case x < 69:
			e.rawRequest(c14ReqSpec{handler: "MailboxHTML", method: "GET", name: name, id: pickID(), suffix: "/html", esc: esc, web: true})
		case x < 72:
			e.rawRequest(c14ReqSpec{handler: "MailboxSource", method: "GET", name: name, id: pickID(), suffix: "/source", esc: esc, web: true})
		case x < 76:
			num := []string{"0", "0", "1", "2", "7", "zz", "-1", "4294967296"}[r.Intn(8)]
			e.rawRequest(c14ReqSpec{handler: "MailboxViewAttach", method: "GET", name: name, id: pickID(), suffix: "/attach/" + num + "/f.bin", num: num, esc: esc, web: true})
		case x < 78:
			e.rawRequest(c14ReqSpec{handler: "MailboxListV1", method: []string{"POST", "PUT", "PATCH"}[r.Intn(3)], name: name, esc: esc})
		default:
			op := []string{"list", "list", "get", "get", "source", "seen", "delete", "purge"}[r.Intn(8)]
			cname := name
			if r.Intn(4) > 0 {
				cname = box // mostly the canonical name: the oracle's domain
			}
			id := ""
			if op != "list" && op != "purge" {
				id = pickID()
				for strings.ContainsAny(id, "% ") { // ids the URL model does not cover
					id = pickID()
				}
			}
			e.clientOp(op, cname, id)
			// the objects the client hands out offer operations of their own: use them on what was just returned
			if hs := e.lastHs; op == "list" && len(hs) > 0 && r.Intn(2) == 0 {
				h := hs[r.Intn(len(hs))]
				if h != nil && h.JSONMessageHeaderV1 != nil && !strings.ContainsAny(h.ID, "% ") {
					e.clientOpVia([]string{"get", "source", "source", "delete"}[r.Intn(4)], h.Mailbox, h.ID, h)
				}
			} else if m := e.lastMsg; op == "get" && m != nil && m.JSONMessageV1 != nil && r.Intn(2) == 0 && !strings.ContainsAny(m.ID, "% ") {
				e.clientOpVia([]string{"source", "delete"}[r.Intn(2)], m.Mailbox, m.ID, m)
			}
		}
	}
	if e.bad {
		return
	}
	// ---- final dump
	boxesDump := []string{}
	e.be.st.VisitMailboxes(func(ms []storage.Message) bool {
		if len(ms) > 0 {
			p := []string{}
			for _, m := range ms {
				p = append(p, e.metaOfStore(m))
			}
			boxesDump = append(boxesDump, core.HexS(ms[0].Mailbox())+":["+strings.Join(p, "|")+"]")
		}
		return true
	})
	sort.Strings(boxesDump)
	got := "boxes:" + strings.Join(boxesDump, "&")
	want := e.m.Ask("dump")
	e.c.Compared(1)
	if got != want {
		e.line("dump")
		e.diverge("final-store", c14Trunc(got, 800), c14Trunc(want, 800))
	}
	e.c.Count(strings.Join(e.trace, "\n"), e.flags["deliver"] && e.flags["404"] && e.flags["mut"])
	if hidx == 0 {
		e.c.Sample(map[string]interface{}{"config": e.k.label(), "trace": e.trace[:min(len(e.trace), 14)]})
	}
}

// ---- stored witnesses of the open known findings

func (e *c14Env) replayKnown() {
	r := e.c.SubRng("c14-replay")
	fresh := func() {
		be, _ := newBackend("mem", 0, 0, "")
		e.be = be
		e.mm.Store = be.st
		e.mm.ExtHost = be.host
		e.gen = map[string]*c14GenMsg{}
		e.trace = nil
		e.flags = map[string]bool{}
		e.m.Ask("reset naming=" + e.k.Naming)
	}
	witness := func(id, def string) string {
		var w struct {
			Mailbox string `json:"mailbox"`
		}
		if k, ok := e.c.Known[id]; ok && json.Unmarshal(k.Witness, &w) == nil && w.Mailbox != "" {
			return w.Mailbox
		}
		return def
	}
	if e.c.IsOpen("F-14c") {
		fresh()
		box := witness("F-14c", "a/b")
		e.deliver(r, box+"@example.com", 1)
		hs, err := e.cl.ListMailbox(box)
		e.takeObs()
		e.rec.take()
		if err != nil || len(hs) != 1 {
			e.c.KnownStillFails("F-14c")
		} else {
			e.c.Note("F-14c: the stored witness %q no longer fails (ListMailbox returned the message)", box)
		}
	}
	if e.c.IsOpen("F-14d") {
		fresh()
		box := witness("F-14d", "h#1")
		stillFails := false
		for seq := 1; seq <= 12 && !stillFails; seq++ {
			e.deliver(r, box+"@example.com", seq)
			msg, err := e.cl.GetMessage(box, "latest")
			e.takeObs()
			e.rec.take()
			if err != nil || msg == nil {
				continue
			}
			g := e.gen[box+"\x00"+msg.ID]
			for i, a := range msg.Attachments {
				if ok, _ := e.fetchLink(a.DownloadLink, g.atts[i]); !ok {
					stillFails = true
				}
			}
		}
		if stillFails {
			e.c.KnownStillFails("F-14d")
		} else {
			e.c.Note("F-14d: the stored witness %q no longer fails (attachment links resolve)", box)
		}
	}
}


// overlappingRequests: what a request is answered does not depend on which other requests are being served at the same time.  Every read
// route is asked (i) alone, (ii) with another complete request served while its own response is being written (the client is slow to take
// the first byte; deterministic), (iii) by eight clients at once over real connections; (ii) and (iii) must return byte for byte what (i)
// returned.  Implementation only (the model answers one request at a time).
func (e *c14Env) overlappingRequests() {
	be, err := newBackend("mem", 0, 0, "")
	if err != nil {
		e.c.Note("backend: %v", err)
		return
	}
	e.be = be
	e.mm.Store = be.st
	e.mm.ExtHost = be.host
	r := e.c.SubRng("c14-overlap-" + e.k.label())
	var urls []string
	for b := 0; b < 8; b++ {
		addr := fmt.Sprintf("ovl%d@example.com", b)
		box, err := e.mm.MailboxForAddress(addr)
		if err != nil {
			continue
		}
		n := 1 + r.Intn(6)
		var lastID string
		for k := 0; k < n; k++ {
			body := fmt.Sprintf("From: sender%d@example.org\r\nTo: %s\r\nSubject: overlap %d/%d %s\r\nContent-Type: text/plain\r\n\r\n%s\r\n", b, addr, b, k,
				strings.Repeat("s", r.Intn(40)), strings.Repeat(fmt.Sprintf("text of message %d/%d. ", b, k), 1+r.Intn(200)))
			id, err := be.st.AddMessage(&message.Delivery{Meta: event.MessageMetadata{Mailbox: box, From: &mail.Address{Address: fmt.Sprintf("sender%d@example.org", b)},
				To: []*mail.Address{{Address: addr}}, Subject: fmt.Sprintf("overlap %d/%d", b, k), Date: time.Unix(1700000000+int64(k), 0)}, Reader: strings.NewReader(body)})
			if err != nil {
				e.c.Note("overlap: AddMessage: %v", err)
				return
			}
			lastID = id
		}
		name := url.PathEscape(box)
		urls = append(urls, e.prefix("/api/v1/mailbox/"+name), e.prefix("/api/v1/mailbox/"+name+"/"+lastID), e.prefix("/api/v1/mailbox/"+name+"/"+lastID+"/source"),
			e.prefix("/serve/mailbox/"+name+"/"+lastID), e.prefix("/serve/mailbox/"+name+"/"+lastID+"/source"))
	}
	serve := func(w http.ResponseWriter, u string) {
		req := httptest.NewRequest("GET", u, nil)
		req.Header.Set("Accept", "application/json")
		web.Router.ServeHTTP(w, req)
	}
	base := map[string][]byte{}
	for _, u := range urls {
		rec := httptest.NewRecorder()
		serve(rec, u)
		if rec.Code != 200 {
			e.c.Fail("rest-read-alone", []string{"GET " + u}, fmt.Sprintf("status %d for a message the store holds", rec.Code), "")
			return
		}
		base[u] = append([]byte{}, rec.Body.Bytes()...)
	}
	for i, ua := range urls {
		ub := urls[(i+5+5*r.Intn(len(urls)/5-1))%len(urls)] // a route of another mailbox
		inner := httptest.NewRecorder()
		outer := &c02SlowWriter{hdr: http.Header{}, meanwhile: func() { serve(inner, ub) }}
		serve(outer, ua)
		e.c.Compared(2)
		e.c.H("overlap:nested")
		if !bytes.Equal(outer.body.Bytes(), base[ua]) || !bytes.Equal(inner.Body.Bytes(), base[ub]) {
			e.c.Fail("request-answer-independent-of-other-requests", []string{"GET " + ua + " whose client is slow to take the first byte; meanwhile GET " + ub + " is served completely"},
				fmt.Sprintf("first request alone: %s | overlapped: %s ;; second request alone: %s | overlapped: %s", c14Trunc(string(base[ua]), 160), c14Trunc(outer.body.String(), 160),
					c14Trunc(string(base[ub]), 160), c14Trunc(inner.Body.String(), 160)), "")
			return
		}
	}
	var wg sync.WaitGroup
	var once sync.Once
	rounds := e.c.Scale(60, 600)
	for g := 0; g < 8; g++ {
		wg.Add(1)
		go func(g int) {
			defer wg.Done()
			rr := rand.New(rand.NewSource(int64(g) + 4242))
			for i := 0; i < rounds; i++ {
				u := urls[(g*5+rr.Intn(5)+5*rr.Intn(2)*rr.Intn(8))%len(urls)]
				req, _ := http.NewRequest("GET", e.srv.URL+u, nil)
				req.Header.Set("Accept", "application/json")
				resp, err := e.raw.Do(req)
				if err != nil {
					once.Do(func() { e.c.Fail("no-dropped-connection", []string{"GET " + u + " (8 clients at once)"}, err.Error(), "") })
					return
				}
				b, _ := io.ReadAll(resp.Body)
				resp.Body.Close()
				e.c.Compared(1)
				e.c.H("overlap:concurrent")
				if resp.StatusCode != 200 || !bytes.Equal(b, base[u]) {
					once.Do(func() {
						e.c.Fail("request-answer-independent-of-other-requests", []string{"GET " + u + " while seven other clients read other mailboxes"},
							fmt.Sprintf("status %d; alone: %s | among others: %s", resp.StatusCode, c14Trunc(string(base[u]), 200), c14Trunc(string(b), 200)), "")
					})
					return
				}
			}
		}(g)
	}
	wg.Wait()
	e.c.Count("overlapping-requests "+e.k.label(), true)
}
