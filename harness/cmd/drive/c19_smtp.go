package main

// Concurrent SMTP leg (C19, C03, C01; driver mode `smtpconc`): 2–6 REAL sessions of one real smtp.Server (TCP, Start(ctx)) around ONE
// real memory / file store (a mailbox cap sometimes), driven in LOCK-STEP along a generated schedule: an event is "session k does
// its next unit" (one command line sent and its reply read; after an accepted DATA: the whole block with its terminator sent and
// the reply read), "another client removes a message / purges a mailbox" (straight on the store), or "shutdown is requested"
// (cancel(): the listener closes, sessions already open go on).  Since an event is finished before the next one starts, the
// interleaving the implementation sees IS the schedule handed to the model.  Sessions overlap on mailboxes (the same address
// from two sessions, `+ext` and case variants, duplicates inside one envelope), some abandon a transaction by RSET / a second
// EHLO, get RCPTs refused, send blocks over the size limit, send junk, or vanish in mid-transaction, while others are in DATA.
//
// The sentences (C03 "transactions are … isolated from each other"; C01 "each accepted recipient gains exactly one new message,
// nothing else changes"; C19 "a session that is already open can complete its dialogue — a message whose transfer is in progress
// is still stored and acknowledged"), in the form Props/C03Conc.lean and Props/C19Smtp.lean prove them of the composed model.
// Implementation-only oracles, run first:
//   smtp_session_isolated                 every reply a session got (code, number of lines) and every copy it handed to the store
//                                         (mailbox, subject; recording decorator around the store the manager is given) equals what
//                                         the SAME dialogue gets alone on a fresh server with the same configuration
//                                         (fresh_session_is_run, fresh_session_calls) — for events before / without a shutdown;
//   smtp_open_session_unaffected_by_shutdown   the same, for events after the cancel (shutdown_events_are_immaterial);
//   inflight_message_stored_and_acked     a transaction that was open (MAIL and a RCPT accepted) when shutdown was requested and
//                                         whose block the client then completes is answered as it is alone, and when that answer
//                                         is 250 its copies were handed to the store (inflight_message_stored_and_acked);
//   smtp_store_is_its_calls               at the end every mailbox lists exactly the copies the sessions handed over, in arrival
//                                         order, minus what the cap evicted (oldest first) and what the recorded removals / purges of
//                                         the other clients took; nothing else appears (store_is_trace, capped_mailbox_holds_newest);
//   drain_returns_after_last_session      Drain() returns once every connection is closed.
// THEN every event's replies and copies and the final store (mailboxes, order, subjects, senders, recipients, sources with the
// time stamp masked; per-mailbox delivery ordinals) against `ibxdrv smtpconc`, which executes every event by `Sess.exec1 (prog env)`.

import (
	"bufio"
	"context"
	"fmt"
	"io"
	"math/rand"
	"net"
	"os"
	"sort"
	"strconv"
	"strings"
	"sync"
	"sync/atomic"
	"time"

	"github.com/inbucket/inbucket/v3/pkg/config"
	"github.com/inbucket/inbucket/v3/pkg/extension"
	"github.com/inbucket/inbucket/v3/pkg/message"
	"github.com/inbucket/inbucket/v3/pkg/policy"
	"github.com/inbucket/inbucket/v3/pkg/server/smtp"
	"github.com/inbucket/inbucket/v3/pkg/storage"
	"github.com/inbucket/inbucket/v3/pkg/storage/file"
	"github.com/inbucket/inbucket/v3/pkg/storage/mem"

	"verif/harness/internal/core"
)

func init() {
	for _, id := range []string{"C19", "C03", "C01"} {
		id := id
		prev := extra[id]
		extra[id] = func(c *core.Ctx) {
			if prev != nil {
				prev(c)
			}
			smtpConcLeg(c)
		}
	}
	register("SMTPCONC", func(c *core.Ctx) {
		c.Res.Rule = "concurrent SMTP leg alone"
		smtpConcLeg(c)
	})
}

// scRecStore records the AddMessage calls made through it (the manager's view of the store) and fails them for chosen mailboxes.
type scRecStore struct {
	storage.Store
	mu    sync.Mutex
	calls []scAdd
	fail  map[string]bool
}

type scAdd struct {
	box, id, subject string
	ok               bool
}

func (s *scRecStore) AddMessage(m storage.Message) (string, error) {
	if s.fail[m.Mailbox()] {
		s.mu.Lock()
		s.calls = append(s.calls, scAdd{m.Mailbox(), "", m.Subject(), false})
		s.mu.Unlock()
		return "", errInjected
	}
	id, err := s.Store.AddMessage(m)
	s.mu.Lock()
	s.calls = append(s.calls, scAdd{m.Mailbox(), id, m.Subject(), err == nil})
	s.mu.Unlock()
	return id, err
}

func (s *scRecStore) taken() []scAdd {
	s.mu.Lock()
	defer s.mu.Unlock()
	c := s.calls
	s.calls = nil
	return c
}

var scDirN int64

// scBuild: smtpEnv.build with a choice of back-end and the recording decorator between manager and store.
func scBuild(e *smtpEnv, fileDir string) (*smtpStack, *scRecStore, error) {
	smtpMu.Lock()
	root, err := e.pol.load()
	smtpMu.Unlock()
	if err != nil {
		return nil, nil, err
	}
	switch e.naming {
	case "local":
		root.MailboxNaming = config.LocalNaming
	case "full":
		root.MailboxNaming = config.FullNaming
	case "domain":
		root.MailboxNaming = config.DomainNaming
	}
	root.SMTP.MaxRecipients = e.maxRcpt
	root.SMTP.MaxMessageBytes = e.maxBytes
	root.SMTP.Domain = "inbucket.test"
	root.SMTP.Timeout = 20 * time.Second
	root.SMTP.Addr = "127.0.0.1:0"
	host := extension.NewHost()
	var st storage.Store
	if fileDir != "" {
		st, err = file.New(config.Storage{MailboxMsgCap: e.cap, Params: map[string]string{"path": fileDir}}, host)
	} else {
		st, err = mem.New(config.Storage{MailboxMsgCap: e.cap, Params: map[string]string{}}, host)
	}
	if err != nil {
		return nil, nil, err
	}
	rec := &scRecStore{Store: st, fail: map[string]bool{}}
	for _, b := range e.failBoxes {
		rec.fail[b] = true
	}
	ap := &policy.Addressing{Config: root}
	mgr := &message.StoreManager{AddrPolicy: ap, Store: rec, ExtHost: host}
	srv := smtp.NewServer(root.SMTP, mgr, ap, host)
	return &smtpStack{env: e, root: root, ap: ap, host: host, store: st, srv: srv}, rec, nil
}

type scSess struct {
	lines          [][]byte
	blocks         [][]byte
	pos            int
	conn           net.Conn
	br             *bufio.Reader
	inData         bool   // the last reply was the 354
	held           string // the 354, attributed to the step that sends the block (as the model does)
	done           bool   // QUIT answered, or the connection is gone
	closed         bool
	tokens         []string // everything this session was answered / handed to the store, in order (r250, r250x4, S<boxhex>)
	afterC         []bool   // per token: after the cancel?
	inTx           bool     // MAIL and at least one RCPT accepted since
	mailOK         bool
	txOpenAtCancel bool
}

// scReadReply: one (possibly multi-line) reply -> token r<code>[x<lines>].
func scReadReply(conn net.Conn, br *bufio.Reader) (string, int, error) {
	// generous: on a loaded machine a reply may take seconds; a session the server has ended answers with EOF at once
	conn.SetReadDeadline(time.Now().Add(4 * c19IO))
	n, code := 0, 0
	for {
		l, err := br.ReadString('\n')
		if err != nil {
			return "", 0, err
		}
		n++
		if len(l) < 4 {
			return "", 0, fmt.Errorf("malformed reply line %q", l)
		}
		cd, err := strconv.Atoi(l[:3])
		if err != nil {
			return "", 0, fmt.Errorf("malformed reply line %q", l)
		}
		if n > 1 && cd != code {
			return "", 0, fmt.Errorf("multi-line reply with differing codes (%d, %d)", code, cd)
		}
		code = cd
		if l[3] == ' ' {
			break
		}
	}
	if n == 1 {
		return fmt.Sprintf("r%d", code), code, nil
	}
	return fmt.Sprintf("r%dx%d", code, n), code, nil
}

// scSharedAddrs: a few addresses all sessions of a scenario draw from, with `+ext` and case variants naming the same mailbox.
func scSharedAddrs(r *rand.Rand, g *smtpGen) []string {
	var res []string
	doms := g.domainPool()
	for i := 0; i < 3; i++ {
		l := []string{"alice", "bob", "carol", "dave"}[r.Intn(4)]
		d := doms[r.Intn(4)]
		res = append(res, l+"@"+d, recase(r, l)+"@"+d, l+"+"+[]string{"ext", "x", "Tag"}[r.Intn(3)]+"@"+d)
	}
	return res
}

// scDialogue: g.dialogue() with recipients redirected to the shared pool so that sessions meet in the same mailboxes.
func scDialogue(r *rand.Rand, g *smtpGen, shared []string) smtpDialogue {
	d := g.dialogue()
	for i, l := range d.lines {
		cmd, arg, ok := harnessParseCmd(strings.TrimRight(string(l), "\r\n"))
		if ok && cmd == "RCPT" && len(arg) > 4 && strings.HasSuffix(arg, ">") && r.Intn(100) < 60 {
			d.lines[i] = []byte("RCPT TO:<" + shared[r.Intn(len(shared))] + ">\r\n")
		}
	}
	return d
}

type scPlan struct {
	env    *smtpEnv
	ns     int
	file   bool
	dlgs   []smtpDialogue
	cancel int // the shutdown is requested before the event with this index (-1: never)
	others int // percent of events that are another client's store call
	shape  string
}

func scMakePlan(r *rand.Rand) *scPlan {
	p := &scPlan{ns: 2 + r.Intn(5), file: r.Intn(3) == 0, cancel: -1}
	prof := smtpProfile{namings: allNamings, smallMax: r.Intn(4) == 0, withCap: r.Intn(2) == 0}
	p.env = prof.randEnv(r)
	p.env.debug = false
	if p.env.cap > 0 && r.Intn(2) == 0 {
		p.env.cap = 1 + r.Intn(3)
	}
	// most policies accept and store by default so that deliveries happen; the others exercise refused RCPTs
	if r.Intn(100) < 70 {
		p.env.pol.da, p.env.pol.ds = true, true
	}
	g := &smtpGen{r: r, env: p.env, errRate: 8, bigBody: prof.smallMax}
	shared := scSharedAddrs(r, g)
	for k := 0; k < p.ns; k++ {
		g.subjN = 1000 * (k + 1)
		g.errRate = []int{0, 5, 10, 30}[r.Intn(4)]
		d := scDialogue(r, g, shared)
		// no line a textproto reader of the harness cannot answer in lock-step: very long junk lines are kept, they get one reply
		if r.Intn(6) == 0 && len(d.lines) > 2 {
			// the client vanishes: possibly in mid-transaction, possibly inside a block
			d.lines = d.lines[:1+r.Intn(len(d.lines)-1)]
			p.shape += "+drop"
		}
		if r.Intn(5) == 0 {
			// commands that do not leave GREET before the greeting command (NOOP / RSET / VRFY first)
			pre := [][]byte{[]byte([]string{"NOOP\r\n", "RSET\r\n", "VRFY x\r\n", "HELO\r\n"}[r.Intn(4)])}
			d.lines = append(pre, d.lines...)
		}
		p.dlgs = append(p.dlgs, d)
	}
	total := 0
	for _, d := range p.dlgs {
		total += len(d.lines)
	}
	if r.Intn(8) != 0 {
		p.cancel = r.Intn(total + 1)
		if r.Intn(3) == 0 {
			p.cancel = r.Intn(1 + total/4) // early: sessions still before / in their greeting
		}
	} else {
		p.shape += "+no-shutdown"
	}
	p.others = []int{0, 5, 15}[r.Intn(3)]
	if r.Intn(12) == 0 && len(shared) > 0 {
		// an I/O fault of the store for a mailbox sessions deliver to
		if rc, err := (&policy.Addressing{Config: namingRoot(p.env.naming)}).NewRecipient(shared[0]); err == nil {
			p.env.failBoxes = append(p.env.failBoxes, rc.Mailbox)
			p.shape += "+store-fault"
		}
	}
	return p
}

// scEnvLine: the `new` line of driver mode smtpconc (environment tables over ALL sessions' streams).
func scEnvLine(st *smtpStack, p *scPlan, rhost string) string {
	var all []byte
	var blocks [][]byte
	for _, d := range p.dlgs {
		for _, l := range d.lines {
			all = append(all, l...)
		}
		if n := len(all); n > 0 && all[n-1] != '\n' {
			all = append(all, '\n')
		}
		blocks = append(blocks, d.blocks...)
	}
	l := st.modelLine(all, blocks, "-")
	l = strings.TrimPrefix(l, "run ")
	if i := strings.Index(l, " budget="); i >= 0 {
		l = l[:i]
	}
	l = strings.Replace(l, "rhost="+core.HexS("pipe"), "rhost="+core.HexS(rhost), 1)
	return "new " + l
}

func scDumpStore(st storage.Store) string {
	type box struct{ key, enc string }
	var boxes []box
	st.VisitMailboxes(func(ms []storage.Message) bool {
		if len(ms) == 0 {
			return true
		}
		var parts []string
		for _, m := range ms {
			src := []byte{}
			if rd, err := m.Source(); err == nil {
				src, _ = io.ReadAll(rd)
				rd.Close()
			}
			masked := tsRE.ReplaceAll(src, []byte("${1}TS\r\n"))
			from := ""
			if m.From() != nil {
				from = m.From().Address
			}
			var tos []string
			for _, t := range m.To() {
				tos = append(tos, core.HexS(t.Address))
			}
			parts = append(parts, fmt.Sprintf("%s/%s/%s/%s", core.HexS(m.Subject()), core.HexS(from), strings.Join(tos, ","), core.Hex(masked)))
		}
		k := core.HexS(ms[0].Mailbox())
		boxes = append(boxes, box{k, k + ":[" + strings.Join(parts, "|") + "]"})
		return true
	})
	sort.Slice(boxes, func(i, j int) bool { return boxes[i].key < boxes[j].key })
	l := make([]string, len(boxes))
	for i, b := range boxes {
		l[i] = b.enc
	}
	return strings.Join(l, "&")
}

func scTokens(calls []scAdd) []string {
	var res []string
	for _, cl := range calls {
		if cl.ok {
			res = append(res, "S"+core.HexS(cl.box))
		}
	}
	return res
}

// scAlone: the same dialogue alone on a fresh server of the same configuration (net.Pipe, lock-step): reply tokens and copies.
func scAlone(e *smtpEnv, d smtpDialogue) ([]string, string, error) {
	st, rec, err := scBuild(e, "")
	if err != nil {
		return nil, "", err
	}
	client, server := net.Pipe()
	done := make(chan struct{})
	panicked := ""
	go func() {
		defer close(done)
		defer func() {
			if r := recover(); r != nil {
				panicked = fmt.Sprint(r)
				server.Close()
			}
		}()
		st.srv.VerifServe(1, server)
	}()
	defer func() {
		client.Close()
		select {
		case <-done:
		case <-time.After(c19IO):
		}
	}()
	br := bufio.NewReader(client)
	var toks []string
	tok, _, err := scReadReply(client, br)
	if err != nil {
		return nil, "", fmt.Errorf("lone run: greeting: %v %s", err, panicked)
	}
	toks = append(toks, tok)
	pos, inData := 0, false
	for pos < len(d.lines) {
		var chunk []byte
		complete := true
		if inData {
			complete = false
			for pos < len(d.lines) {
				l := d.lines[pos]
				pos++
				chunk = append(chunk, l...)
				if string(l) == ".\r\n" {
					complete = true
					break
				}
			}
		} else {
			chunk = d.lines[pos]
			pos++
		}
		client.SetWriteDeadline(time.Now().Add(c19IO))
		if _, err := client.Write(chunk); err != nil {
			return toks, "", fmt.Errorf("lone run: write: %v %s", err, panicked)
		}
		if !complete {
			break
		}
		tok, code, err := scReadReply(client, br)
		if err != nil {
			return toks, "", fmt.Errorf("lone run: reply to %q: %v %s", trunc(string(chunk), 60), err, panicked)
		}
		if inData {
			toks = append(toks, scTokens(rec.taken())...)
			inData = false
		} else if code == 354 {
			inData = true
		}
		toks = append(toks, tok)
		if code == 221 {
			break
		}
	}
	return toks, "", nil
}

func smtpConcScenario(c *core.Ctx, m *core.Model, r *rand.Rand, idx int) {
	p := scMakePlan(r)
	var script []string
	cas := func() []string {
		head := []string{fmt.Sprintf("smtpconc case=%d store=%s sessions=%d naming=%s maxrcpt=%d maxbytes=%d cap=%d failing-mailboxes=%q shape=%s", idx,
			map[bool]string{true: "file", false: "memory"}[p.file], p.ns, p.env.naming, p.env.maxRcpt, p.env.maxBytes, p.env.cap, p.env.failBoxes, p.shape),
			fmt.Sprintf("policy=%+v", p.env.pol)}
		s := script
		if len(s) > 160 {
			s = append(append([]string{}, s[:60]...), append([]string{"…"}, s[len(s)-100:]...)...)
		}
		return append(head, s...)
	}
	note := func(f string, a ...interface{}) { script = append(script, fmt.Sprintf(f, a...)) }
	fail := func(oracle, detail string) { c.Fail(oracle, cas(), detail, "") }

	dir := ""
	if p.file {
		dir = fmt.Sprintf("%s/smtpconc%d-%d", c.Workdir, os.Getpid(), atomic.AddInt64(&scDirN, 1))
		defer os.RemoveAll(dir)
	}
	st, rec, err := scBuild(p.env, dir)
	if err != nil {
		c.Note("smtpconc: stack build failed: %v", err)
		return
	}
	ctx, cancel := context.WithCancel(context.Background())
	defer cancel()
	ready := make(chan struct{})
	go st.srv.Start(ctx, func() { close(ready) })
	select {
	case <-ready:
	case e := <-st.srv.Notify():
		c.Note("smtpconc: server did not start: %v", e)
		return
	case <-time.After(c19Deadline):
		fail("harness_world", "server did not report ready")
		return
	}
	addr := st.srv.VerifListenerAddr().String()

	// A disagreement with the model is held back until the implementation-only oracles have spoken: the scenario is driven to its
	// end on the implementation alone (the model is not consulted any more), the oracles judge it, then the divergence is reported.
	modelOn := true
	var pending func()
	ask := func(line, want string) bool {
		if !modelOn {
			return true
		}
		c.Compared(1)
		if got := m.Ask(line); got != want {
			snapshot := append(cas(), "model: "+trunc(line, 300))
			pending = func() { c.Diverge("smtpconc", snapshot, want, trunc(got, 600)) }
			modelOn = false
		}
		return true
	}
	if ask(scEnvLine(st, p, "127.0.0.1"), "ok"); !modelOn {
		pending()
		return
	}
	// every client connects before anything else happens (nothing new is accepted once shutdown is requested)
	ss := make([]*scSess, p.ns)
	for k := range ss {
		d := p.dlgs[k]
		s := &scSess{lines: d.lines, blocks: d.blocks}
		conn, err := net.DialTimeout("tcp4", addr, 2*time.Second)
		if err != nil {
			fail("harness_dial", err.Error())
			return
		}
		defer conn.Close()
		s.conn, s.br = conn, bufio.NewReader(conn)
		tok, _, err := scReadReply(conn, s.br)
		if err != nil {
			fail("smtp_session_isolated", fmt.Sprintf("session %d: no greeting: %v", k, err))
			return
		}
		s.tokens, s.afterC = append(s.tokens, tok), append(s.afterC, false)
		var inp []byte
		for _, l := range d.lines {
			inp = append(inp, l...)
		}
		hx := "-"
		if len(inp) > 0 {
			hx = core.Hex(inp)
		}
		if !ask("open budget=- inp="+hx, fmt.Sprintf("ok i=%d", k)) {
			return
		}
		ss[k] = s
	}
	other := p.ns
	if !ask("client", fmt.Sprintf("ok i=%d", other)) {
		return
	}

	// bookkeeping of the store from the recorded calls alone (implementation only)
	ord := map[string]map[string]int{} // mailbox -> id -> delivery ordinal
	next := map[string]int{}
	expect := map[string][]string{} // mailbox -> ids expected to be listed, in order
	applyAdds := func(calls []scAdd) {
		for _, cl := range calls {
			if !cl.ok {
				continue
			}
			if ord[cl.box] == nil {
				ord[cl.box] = map[string]int{}
			}
			next[cl.box]++
			ord[cl.box][cl.id] = next[cl.box]
			expect[cl.box] = append(expect[cl.box], cl.id)
			if p.env.cap > 0 {
				for len(expect[cl.box]) > p.env.cap {
					expect[cl.box] = expect[cl.box][1:]
				}
			}
		}
	}
	listing := func(mb string) []string {
		ms, _ := st.store.GetMessages(mb)
		ids := make([]string, 0, len(ms))
		for _, x := range ms {
			ids = append(ids, x.ID())
		}
		return ids
	}

	cancelled := false
	events := 0
	anyOverlap, inflight, greetAfterCancel := false, 0, 0
	boxSessions := map[string]map[int]bool{}
	live := func() []int {
		var l []int
		for k, s := range ss {
			if !s.done {
				l = append(l, k)
			}
		}
		return l
	}
	doCancel := func() bool {
		note("shutdown is requested (cancel)")
		cancel()
		cancelled = true
		for k, s := range ss {
			s.txOpenAtCancel = s.inTx && !s.done
			if s.txOpenAtCancel {
				note("  session %d has a transaction open (MAIL and a RCPT accepted%s)", k, map[bool]string{true: ", 354 received", false: ""}[s.inData])
			}
		}
		c.H("smtpconc:shutdown-requested")
		return ask("cancel", "ok") && ask("close", "ok")
	}
	for {
		l := live()
		if len(l) == 0 {
			break
		}
		if p.cancel >= 0 && !cancelled && events >= p.cancel {
			if !doCancel() {
				return
			}
		}
		events++
		if r.Intn(100) < p.others {
			// another client: remove a message (sometimes one that is already gone) or purge a mailbox
			var boxes []string
			for b := range ord {
				boxes = append(boxes, b)
			}
			sort.Strings(boxes)
			if len(boxes) > 0 {
				b := boxes[r.Intn(len(boxes))]
				if r.Intn(6) == 0 {
					err := st.store.PurgeMessages(b)
					note("another client purges mailbox %q: %v", b, err)
					expect[b] = nil
					if !ask("call "+strconv.Itoa(other)+" purge "+core.HexS(b), "ok") {
						return
					}
					c.H("smtpconc:other:purge")
				} else {
					var ids []string
					for id := range ord[b] {
						ids = append(ids, id)
					}
					sort.Strings(ids)
					id := ids[r.Intn(len(ids))]
					err := st.store.RemoveMessage(b, id)
					note("another client removes message %d (id %s) of mailbox %q: %v", ord[b][id], id, b, err)
					var keep []string
					for _, x := range expect[b] {
						if x != id {
							keep = append(keep, x)
						}
					}
					expect[b] = keep
					want := "ok"
					if err != nil {
						want = "notExist"
					}
					if !ask(fmt.Sprintf("call %d rm %s %d", other, core.HexS(b), ord[b][id]), want) {
						return
					}
					c.H("smtpconc:other:remove:" + want)
				}
				continue
			}
		}
		k := l[r.Intn(len(l))]
		s := ss[k]
		// ---- one unit of session k
		var chunk []byte
		complete := true
		wasData := s.inData
		if s.pos >= len(s.lines) {
			// nothing left to send: the client goes away
			note("session %d: the client closes the connection", k)
			s.conn.Close()
			s.done, s.closed = true, true
			continue
		}
		if s.inData {
			complete = false
			for s.pos < len(s.lines) {
				ln := s.lines[s.pos]
				s.pos++
				chunk = append(chunk, ln...)
				if string(ln) == ".\r\n" {
					complete = true
					break
				}
			}
		} else {
			chunk = s.lines[s.pos]
			s.pos++
		}
		if wasData {
			note("session %d C: <block of %d bytes%s>", k, len(chunk), map[bool]string{true: "", false: ", NOT terminated: the client vanishes"}[complete])
		} else {
			note("session %d C: %q", k, trunc(strings.TrimRight(string(chunk), "\r\n"), 100))
		}
		s.conn.SetWriteDeadline(time.Now().Add(c19IO))
		_, werr := s.conn.Write(chunk)
		var stepToks []string
		if s.held != "" {
			stepToks = append(stepToks, s.held)
			s.held = ""
		}
		if werr != nil || !complete {
			if werr != nil {
				note("session %d: write failed: %v", k, werr)
			}
			s.conn.Close()
			s.done, s.closed = true, true
		} else {
			tok, code, err := scReadReply(s.conn, s.br)
			calls := rec.taken()
			applyAdds(calls)
			for _, cl := range calls {
				if cl.ok {
					if boxSessions[cl.box] == nil {
						boxSessions[cl.box] = map[int]bool{}
					}
					boxSessions[cl.box][k] = true
					if len(boxSessions[cl.box]) > 1 {
						anyOverlap = true
					}
				}
			}
			if err != nil && os.IsTimeout(err) {
				fail("open_session_finishes", fmt.Sprintf("session %d: no reply within %s to %q (shutdown requested before: %v)", k, 4*c19IO, trunc(strings.TrimRight(string(chunk), "\r\n"), 80), cancelled))
				return
			}
			if err != nil {
				note("session %d S: no reply: %v", k, err)
				s.conn.Close()
				s.done, s.closed = true, true
				stepToks = append(stepToks, scTokens(calls)...)
			} else {
				note("session %d S: %s%s", k, tok, map[bool]string{true: fmt.Sprintf("   (copies handed to the store: %v)", scTokens(calls)), false: ""}[len(calls) > 0])
				cmd, _, _ := harnessParseCmd(strings.TrimRight(string(chunk), "\r\n"))
				switch {
				case wasData:
					s.inData, s.inTx, s.mailOK = false, false, false
					stepToks = append(stepToks, scTokens(calls)...)
					stepToks = append(stepToks, tok)
					if s.txOpenAtCancel {
						inflight++
						s.txOpenAtCancel = false
					}
				case code == 354:
					s.inData = true
					s.held = tok
				default:
					stepToks = append(stepToks, scTokens(calls)...)
					stepToks = append(stepToks, tok)
					switch {
					case cmd == "MAIL" && code == 250:
						s.mailOK, s.inTx = true, false
					case cmd == "RCPT" && code == 250 && s.mailOK:
						s.inTx = true
					case (cmd == "RSET" || cmd == "EHLO") && code == 250:
						s.mailOK, s.inTx = false, false
					}
				}
				if code == 221 || code == 421 {
					s.done = true
				}
				if cancelled && !wasData && (cmd == "NOOP" || cmd == "RSET" || cmd == "VRFY" || cmd == "HELO" || cmd == "EHLO") {
					greetAfterCancel++
				}
			}
		}
		for _, t := range stepToks {
			s.tokens = append(s.tokens, t)
			s.afterC = append(s.afterC, cancelled)
		}
		// ---- the model: the same unit
		if !modelOn {
			continue
		}
		answer := m.Ask(fmt.Sprintf("step %d", k))
		c.Compared(1)
		var mt []string
		for _, t := range strings.Fields(answer) {
			if strings.HasPrefix(t, "over=") || strings.HasPrefix(t, "st=") || t == "-" || t == "F" {
				continue
			}
			mt = append(mt, t)
		}
		impl := append([]string{}, stepToks...)
		if s.held != "" {
			// the 354 has been read but belongs to the model's NEXT step
		}
		if s.closed && !complete {
			// a block cut by the end of the connection: the model's step is the 354 and the end (dataCut); nothing more is observable
			impl = stepToks
		}
		if strings.Join(impl, " ") != strings.Join(mt, " ") {
			snapshot := append(cas(), fmt.Sprintf("model: step %d (%q)", k, trunc(strings.TrimRight(string(chunk), "\r\n"), 80)))
			implS := strings.Join(impl, " ")
			pending = func() { c.Diverge("smtpconc", snapshot, implS, trunc(answer, 400)) }
			modelOn = false
		}
	}
	if p.cancel >= 0 && !cancelled {
		if !doCancel() {
			return
		}
	}
	// ---- the end: every connection goes away; Drain returns
	for _, s := range ss {
		s.conn.Close()
	}
	cancel()
	if !c19Within(c19Deadline, st.srv.Drain) {
		fail("drain_returns_after_last_session", fmt.Sprintf("smtp.Drain() has not returned %s after the last of %d sessions ended", c19Deadline, p.ns))
		return
	}
	applyAdds(rec.taken())

	// ---- implementation-only oracles
	for k, s := range ss {
		lone, _, err := scAlone(p.env, p.dlgs[k])
		if err != nil {
			c.Note("smtpconc: %v", err)
			continue
		}
		c.Compared(1)
		// the concurrent session may have been answered less (it vanished / was not run to its end): a prefix
		n := len(s.tokens)
		if n > len(lone) {
			n = len(lone)
		}
		for i := 0; i < len(s.tokens); i++ {
			if i < len(lone) && s.tokens[i] == lone[i] {
				continue
			}
			got := s.tokens[i]
			want := "<nothing more>"
			if i < len(lone) {
				want = lone[i]
			}
			oracle := "smtp_session_isolated"
			if s.afterC[i] {
				oracle = "smtp_open_session_unaffected_by_shutdown"
			}
			detail := fmt.Sprintf("session %d of %d (shutdown requested before this event: %v): event %d of what it was answered / handed to the store is %s; the same dialogue ALONE on a fresh server with the same configuration gets %s.  Concurrent: %s   alone: %s",
				k, p.ns, s.afterC[i], i, got, want, strings.Join(s.tokens, " "), strings.Join(lone, " "))
			fail(oracle, detail)
			if s.afterC[i] && (strings.HasPrefix(want, "S") || want == "r250" && i > 0 && (strings.HasPrefix(lone[i-1], "S") || lone[i-1] == "r354")) {
				fail("inflight_message_stored_and_acked", detail)
			}
			if pending != nil {
				pending()
			}
			return
		}
		_ = n
	}
	var boxes []string
	for b := range ord {
		boxes = append(boxes, b)
	}
	sort.Strings(boxes)
	for _, b := range boxes {
		c.Compared(1)
		if got := listing(b); strings.Join(got, ",") != strings.Join(expect[b], ",") {
			rk := func(ids []string) string {
				l := make([]string, len(ids))
				for i, id := range ids {
					l[i] = strconv.Itoa(ord[b][id])
				}
				return "[" + strings.Join(l, " ") + "]"
			}
			fail("smtp_store_is_its_calls", fmt.Sprintf("mailbox %q lists deliveries %s at the end; from the AddMessage calls the sessions made (%d), the cap (%d) and the other clients' recorded removals it should list %s",
				b, rk(got), next[b], p.env.cap, rk(expect[b])))
			return
		}
	}
	nbox := 0
	st.store.VisitMailboxes(func(ms []storage.Message) bool {
		if len(ms) > 0 {
			nbox++
			if _, known := ord[ms[0].Mailbox()]; !known {
				fail("smtp_store_is_its_calls", fmt.Sprintf("mailbox %q holds %d message(s) although no session handed a copy for it to the store", ms[0].Mailbox(), len(ms)))
			}
		}
		return true
	})

	// ---- the model: a disagreement met on the way, else the final store
	if pending != nil {
		pending()
		return
	}
	c.Compared(1)
	if got, want := m.Ask("dump"), scDumpStore(st.store); got != want {
		c.Diverge("smtpconc-store", append(cas(), "model: dump"), trunc(want, 1500), trunc(got, 1500))
		return
	}
	for _, b := range boxes {
		l := listing(b)
		w := make([]string, len(l))
		for i, id := range l {
			w[i] = strconv.Itoa(ord[b][id])
		}
		want := "_"
		if len(w) > 0 {
			want = strings.Join(w, ",")
		}
		if !ask("box "+core.HexS(b), want) {
			return
		}
	}
	c.Count(strings.Join(script, "\n"), nbox > 0)
	c.H("smtpconc:store:" + map[bool]string{true: "file", false: "memory"}[p.file])
	c.H(fmt.Sprintf("smtpconc:sessions:%d", p.ns))
	c.H(fmt.Sprintf("smtpconc:cap:%d", p.env.cap))
	if anyOverlap {
		c.H("smtpconc:two-sessions-delivered-to-one-mailbox")
	}
	if inflight > 0 {
		c.H("smtpconc:transaction-open-at-cancel-then-completed")
	}
	if greetAfterCancel > 0 {
		c.H("smtpconc:greeting-phase-commands-after-cancel")
	}
	if idx < 2 {
		c.Sample(map[string]interface{}{"smtpconc": idx, "script": script})
	}
}

func smtpConcLeg(c *core.Ctx) {
	// the model side shows the difference the leg is about (self-test of the driver mode: the source's loop and the two that
	// consult the cancel flag)
	stm := c.NewModel("smtpconc")
	base := "naming=local da=1 acc=_ rej=_ ds=1 sto=_ dis=_ ro=_ maxrcpt=5 maxbytes=1000 cap=0 domain=" + core.HexS("d") + " rhost=" + core.HexS("h") + " ts=" + core.HexS("T") +
		" ip=- re=" + core.HexS("FROM:<a@b.c>") + "~1~" + core.HexS("a@b.c") + "~- args=- hdr=- hookmail=- hookrcpt=- hookstored=- fail=_"
	inp := core.HexS("NOOP\r\nHELO x\r\nMAIL FROM:<a@b.c>\r\nRCPT TO:<u@x.org>\r\nDATA\r\nhi\r\n.\r\n")
	for _, v := range [][3]string{{"source", "r250", "r354 S75 r250"}, {"greet", "r421", "-"}, {"always", "r421", "-"}} {
		lines := []string{"new " + base + " variant=" + v[0], "open budget=- inp=" + inp, "cancel", "close", "step 0", "step 0", "step 0", "step 0", "step 0", "step 0"}
		a := stm.AskAll(lines)
		c.Compared(2)
		first := strings.Fields(a[4])
		last := strings.Fields(a[len(a)-1])
		got1 := ""
		if len(first) > 0 {
			got1 = first[0]
		}
		got2 := strings.Join(last[:max(0, len(last)-2)], " ")
		if got1 != v[1] || got2 != v[2] {
			c.Diverge("smtpconc:selftest", lines, v[1]+" … "+v[2], a[4]+" … "+a[len(a)-1])
		}
	}
	stm.Close()

	n := c.Scale(480, 6000)
	workers := 8
	per := (n + workers - 1) / workers
	core.Parallel(workers, workers, func(wk int) {
		m := c.NewModel("smtpconc")
		defer m.Close()
		for i := 0; i < per; i++ {
			if c.Enough() {
				return
			}
			idx := wk*per + i
			smtpConcScenario(c, m, c.SubRng(fmt.Sprintf("smtpconc/%d", idx)), idx)
		}
	})
}
