package main

// Leg "the file store on a failing disk" — run under C08 (cap) and C10 (durability); stand-alone as SFAULT08 / SFAULT10 for the builder.
//
// C08 and C10 quantify over every history of operations.  The histories of the main store profile (store_common.go) all run on a disk on
// which every system call succeeds; what the store does when calls FAIL is then decided by error paths no such history enters: the cap loop
// whose eviction reports an error, a removal whose index write is refused, an operation that cannot read the mailbox's index.  This leg runs
// histories in which file-system calls fail, by CLASS of fault — never a particular call of a particular operation:
//   one        one call of the operation is refused (any hook call k)
//   from-k     from its k-th call on every call of the operation is refused (the disk went read-only / full in the middle of it)
//   kind       every call of one kind is refused for as long as the fault lasts: every index write (create-tmp | flush-tmp | rename), every
//              unlink of a content file, every create of one, every mkdir, …   (a full disk refuses writes and lets unlinks through; a
//              directory without write permission the other way round)
//   noread     the mailbox's index exists but cannot be OPENED (stat succeeds, open fails: EMFILE, EACCES after a restore with wrong modes,
//              ENXIO — injected without privileges as a socket node in place of index.gob, the index put back when the fault is lifted)
// A fault lasts for 1–3 consecutive operations on the mailbox (deliveries, removals, mark-seen, purges), the store may be RESTARTED (file.New
// on the same path) while it lasts and after it has gone, and afterwards ordinary deliveries follow.  The calls are refused by the machinery
// of c16_fsfault.go (path obstruction at the verif step hook of pkg/storage/file, lifted at the next hook call), here driven by a predicate
// on the REAL execution (hook index, step name), so that the class means the same on any implementation.
//
// Every operation is T2-compared with the fault model lean/Ibx/Model/FsFault.lean (`fault <op> refuse=<the calls really refused> [noread=1]`:
// result class, deleted events, hook trace, directory, unlisted files, what every mailbox lists), whose theorems hold for EVERY fault set
// (Props/C16Fault.lean, Props/C10.lean `unopenable_index_changes_nothing`, Props/C08.lean `cap_holds_whatever_is_refused`).
//
// Implementation-only oracles (run before the model is consulted; each a sentence of the property):
//   C08  cap-bound                    after every operation, whatever failed inside it, no mailbox lists more than the cap
//        holds-most-recent            what a mailbox lists has no hole: a listed message is never older than an acknowledged delivery that is
//                                     not listed and that nothing tried to remove
//        delivered-is-retrievable     a delivery that returned an id is fetched by that id, and as `latest`, immediately
//   C10  restart-shows-what-was-there after a restart every mailbox lists what it listed before it (ids, order, metadata, flags, sizes, content)
//        listed-has-its-content       … and every listed message reads back the bytes that were delivered (before and after the restart)
//        nothing-vanishes-silently    a message leaves a mailbox only by a removal / purge addressed to it or announced by a deleted event
//                                     (an operation that FAILED is none of these: the mail that was there is still there)
//        unreadable-index-is-not-an-empty-mailbox   while the index cannot be opened a listing answers with an error, not with "no messages"
//        usable-after-fault           once the fault has gone, deliveries are accepted again
//   plus the oracles of the fsfault machinery that hold after ANY set of refused calls: listing-works, listed-is-readable, untouched-unchanged.
// Under the C08 check the oracles that speak about content and restarts (sfNotC08) are out of scope: counted, noted, left to C10's check.

import (
	"fmt"
	"math/rand"
	"os"
	"path/filepath"
	"sort"
	"strconv"
	"strings"
	"syscall"
	"time"

	"github.com/inbucket/inbucket/v3/pkg/config"
	"github.com/inbucket/inbucket/v3/pkg/storage/file"

	"verif/harness/internal/core"
)

type sfProfile struct {
	name       string
	caps       []int
	n          [2]int
	addPct     int // share of deliveries among the faulty operations
	restartPct int // chance of a restart after an operation
	classes    []string
}

var sfProfiles = map[string]sfProfile{
	"C08": {name: "c08", caps: []int{1, 2, 2, 3, 3, 4}, n: [2]int{140, 2500}, addPct: 75, restartPct: 8,
		classes: []string{"one", "from-k", "kind", "kind", "kind", "noread"}},
	"C10": {name: "c10", caps: []int{0, 0, 2, 3}, n: [2]int{140, 2500}, addPct: 40, restartPct: 70,
		classes: []string{"one", "from-k", "kind", "kind", "noread", "noread"}},
}

func init() {
	for _, id := range []string{"C08", "C10"} {
		id := id
		prev := extra[id]
		extra[id] = func(c *core.Ctx) {
			if prev != nil {
				prev(c)
			}
			storeFaultLeg(c, sfProfiles[id])
		}
	}
	register("SFAULT08", func(c *core.Ctx) { c.Res.Rule = "the failing-disk leg of C08 alone (for the builder's use)"; storeFaultLeg(c, sfProfiles["C08"]) })
	register("SFAULT10", func(c *core.Ctx) { c.Res.Rule = "the failing-disk leg of C10 alone (for the builder's use)"; storeFaultLeg(c, sfProfiles["C10"]) })
}

// sfNotC08: what this leg observes besides the cap (content of listed messages, restarts, an unreadable index) speaks about C10; under the
// C08 check such a failure is counted (`other-property:…` in the histogram, a note) and left to C10's check, as for every composed leg
var sfNotC08 = map[string]bool{"listed-is-readable": true, "listed-has-its-content": true, "restart-shows-what-was-there": true,
	"unreadable-index-is-not-an-empty-mailbox": true}

func storeFaultLeg(c *core.Ctx, p sfProfile) {
	c16FsMu.Lock()
	defer c16FsMu.Unlock()
	defer func() { file.VerifStepHook = nil }()
	if p.name == "c08" {
		saved := c.Scope
		c.Scope = func(name string) bool { return !sfNotC08[name] && (saved == nil || saved(name)) }
		defer func() { c.Scope = saved }()
	}
	start := time.Now()
	r := c.SubRng("storefault-" + p.name)
	m := c.NewModel("crash")
	defer m.Close()
	n := c.Scale(p.n[0], p.n[1])
	ops, faulty, restarts := 0, 0, 0
	for i := 0; i < n; i++ {
		a, b, d := sfScenario(c, m, r, i, p)
		ops += a
		faulty += b
		restarts += d
		if c.Enough() {
			break
		}
	}
	c.Note("failing-disk leg (%s): %d scenarios, %d operations compared with the fault model, %d of them with refused calls / an unreadable index, %d restarts, %.1fs",
		p.name, n, ops, faulty, restarts, time.Since(start).Seconds())
}

var sfKinds = []string{"create-tmp", "create-tmp", "flush-tmp", "rename", "unlink-raw", "unlink-raw", "create-raw", "copy-raw", "mkdirall", "unlink-index", "rmdir-parent", "index-write"}

func sfScenario(c *core.Ctx, m *core.Model, r *rand.Rand, idx int, p sfProfile) (nOps, nFaulty, nRestarts int) {
	cap := p.caps[r.Intn(len(p.caps))]
	box := []string{"fault", "Fault@example.com", "x"}[r.Intn(3)]
	names := []string{box}
	switch r.Intn(4) {
	case 0:
		names = append(names, "bystander")
	case 1:
		if pl := collidePool(); len(pl) >= 2 {
			names = []string{pl[0], pl[1]}
		}
	case 2:
		if pl := c11SameL2(); len(pl) >= 2 {
			names = []string{pl[0], pl[1]}
		}
	}
	box = names[0]
	h, cleanup := fsfOpen(c, m, r, fmt.Sprintf("sf-%s-%d", p.name, idx), cap, names)
	defer cleanup()
	if h == nil {
		return
	}
	cfg := config.Storage{MailboxMsgCap: cap, Params: map[string]string{"path": h.root}}
	alive := func() bool { return !h.dead }

	// ---- bookkeeping of the addressed mailbox for the implementation-only oracles
	acked := map[int]bool{}   // ranks whose AddMessage returned an id
	touched := map[int]bool{} // ranks a removal / purge was addressed to (whatever it answered), or that were announced deleted
	prev := map[int]bool{}    // ranks listed after the previous operation
	fault := ""               // description of the fault in force
	h.oracle = func(o storeOp, obs *fsfObs, in *fsfInject) {
		if o.box != box {
			return
		}
		if o.kind == "add" && obs.res == "ok" {
			acked[o.id] = true
		}
		if o.kind == "rm" {
			touched[o.id] = true
		}
		if o.kind == "purge" {
			for rk := range prev {
				touched[rk] = true
			}
		}
		for _, e := range obs.fresh {
			if e[0] == box {
				touched[h.rank(box, e[1])] = true
			}
		}
		now := map[int]bool{}
		for id := range obs.ids {
			now[h.rank(box, id)] = true
		}
		ranks := []int{}
		for rk := range now {
			ranks = append(ranks, rk)
		}
		sort.Ints(ranks)
		c.Compared(1)
		if cap > 0 && len(obs.ids) > cap {
			c.Fail("cap-bound", h.lines(), fmt.Sprintf("mailbox %q lists %d messages (delivery ranks %v) under a cap of %d, after %s answered %s%s", box, len(obs.ids), ranks, cap, o.kind, obs.res, fault), "")
		}
		if len(ranks) > 0 {
			for rk := range acked {
				if rk > ranks[0] && !now[rk] && !touched[rk] {
					c.Fail("holds-most-recent", h.lines(), fmt.Sprintf("mailbox %q lists delivery %d but not the more recent delivery %d, which was acknowledged and which nothing tried to remove (listed: %v)%s", box, ranks[0], rk, ranks, fault), "")
					break
				}
			}
		}
		for rk := range prev {
			if !now[rk] && !touched[rk] {
				c.Fail("nothing-vanishes-silently", h.lines(), fmt.Sprintf("delivery %d was listed in %q before this operation (%s, answered %s) and is not listed after it; no removal or purge was addressed to it and no deleted event announced it (listed before: %v, now: %v)%s", rk, box, o.kind, obs.res, sfKeys(prev), ranks, fault), "")
				break
			}
		}
		if o.kind == "add" && obs.res == "ok" {
			id := h.realID(box, o.id)
			g, err := h.st.GetMessage(box, id)
			l, lerr := h.st.GetMessage(box, "latest")
			if err != nil || g == nil || g.ID() != id || lerr != nil || l == nil || l.ID() != id {
				c.Fail("delivered-is-retrievable", h.lines(), fmt.Sprintf("AddMessage returned id %s; GetMessage by that id: %v, `latest`: %v / %v%s", id, err, sfID(l), lerr, fault), "")
			}
		}
		prev = now
	}

	count := func(in *fsfInject, f bool) {
		nOps++
		if len(in.injected) > 0 || f {
			nFaulty++
		}
	}
	restart := func() bool {
		st, err := file.New(cfg, h.host)
		if err != nil {
			c.Fail("reopen-works", h.lines(), "file.New on the existing store: "+err.Error(), "")
			h.dead = true
			return false
		}
		h.st = st
		nRestarts++
		h.trace = append(h.trace, "restart (a new Store on the same path)")
		c.H("storefault:restart")
		for _, b := range h.names {
			ents, problems, err := h.list(h.st, b)
			view := c11View(ents, err)
			c.Compared(1)
			if err != nil {
				c.Fail("restart-shows-what-was-there", h.lines(), fmt.Sprintf("after the restart GetMessages(%q) fails: %v; before it the mailbox listed %s", b, err, c11Short(h.before[b])), "")
				continue
			}
			for _, pr := range problems {
				c.Fail("listed-has-its-content", h.lines(), fmt.Sprintf("after the restart, mailbox %q: %s", b, pr), "")
			}
			if view != h.before[b] {
				c.Fail("restart-shows-what-was-there", h.lines(), fmt.Sprintf("mailbox %q listed %s before the restart and lists %s after it", b, c11Short(h.before[b]), c11Short(view)), "")
			}
		}
		return true
	}
	maybeRestart := func() {
		if alive() && r.Intn(100) < p.restartPct {
			restart()
		}
	}
	listedRank := func() int {
		l := h.listedRanks()
		if len(l) == 0 || r.Intn(8) == 0 {
			return 9000 + r.Intn(5)
		}
		if r.Intn(3) == 0 {
			return l[0] // the oldest: what the cap loop and the retention scanner address
		}
		return l[r.Intn(len(l))]
	}
	genOp := func() storeOp {
		x := r.Intn(100)
		switch {
		case x < p.addPct:
			return h.newAdd(r, box)
		case x < p.addPct+(100-p.addPct)*6/10:
			return storeOp{kind: "rm", box: box, id: listedRank()}
		case x < p.addPct+(100-p.addPct)*8/10:
			return storeOp{kind: "seen", box: box, id: listedRank()}
		}
		return storeOp{kind: "purge", box: box}
	}

	// ---- fill: the bystander gets mail, the mailbox is filled to (or near) its cap
	if len(h.names) > 1 {
		for k := 0; k < 1+r.Intn(2) && alive(); k++ {
			_, in := h.step(h.newAdd(r, h.names[1]), nil, "no fault", false)
			count(in, false)
		}
	}
	fill := cap
	if fill == 0 || r.Intn(5) == 0 {
		fill = 1 + r.Intn(4)
	}
	for k := 0; k < fill && alive(); k++ {
		_, in := h.step(h.newAdd(r, box), nil, "no fault", false)
		count(in, false)
	}
	maybeRestart()

	// ---- rounds: a fault of one class lasts for 1..3 operations, then the disk works again
	for round := 0; round < 3 && alive(); round++ {
		class := p.classes[r.Intn(len(p.classes))]
		var pred func(k int, step string) bool
		label := ""
		switch class {
		case "one":
			k0 := r.Intn(14)
			pred = func(k int, step string) bool { return k == k0 }
			label = fmt.Sprintf("call %d of the operation is refused", k0)
		case "from-k":
			k0 := r.Intn(12)
			pred = func(k int, step string) bool { return k >= k0 }
			label = fmt.Sprintf("from call %d on every call of the operation is refused", k0)
		case "kind":
			kind := sfKinds[r.Intn(len(sfKinds))]
			pred = func(k int, step string) bool {
				if kind == "index-write" {
					return step == "create-tmp" || step == "unlink-index"
				}
				return step == kind
			}
			label = fmt.Sprintf("every %s is refused", kind)
			if kind == "index-write" {
				label = "every write of an index (create-tmp, unlink-index) is refused"
			}
		case "noread":
			label = "the mailbox's index cannot be opened (stat succeeds, open fails)"
		}
		c.H("storefault:class:" + class)
		fault = "; fault in force: " + label
		for k, nf := 0, 1+r.Intn(3); k < nf && alive(); k++ {
			o := genOp()
			if class == "noread" {
				in, did := sfNoRead(c, h, r, o, label, cfg, p)
				count(in, did)
			} else {
				h.pred = pred
				_, in := h.step(o, nil, label, false)
				h.pred = nil
				count(in, false)
			}
			maybeRestart()
		}
		fault = ""
		for k := 0; k < 2 && alive(); k++ {
			obs, in := h.step(h.newAdd(r, box), nil, "no fault, after the fault has gone", false)
			count(in, false)
			if alive() && obs.res != "ok" {
				c.Fail("usable-after-fault", h.lines(), "a delivery after the fault has gone answered "+obs.res, "")
			}
		}
		maybeRestart()
	}
	if alive() && p.restartPct > 0 {
		restart()
	}
	if idx < 3 {
		c.Sample(map[string]interface{}{"leg": "failing-disk-" + p.name, "scenario": idx, "cap": cap, "mailboxes": h.names, "lines": h.trace})
	}
	return
}

// sfNoRead: one operation while the index of its mailbox exists and cannot be opened.  The node that stands for it is a socket (open(2) answers
// ENXIO, stat(2) succeeds); the real index waits beside it and is put back when the operation has returned — unless the store has meanwhile
// replaced or removed what it took for the index, in which case the mail the old index listed is lost, as it would be on a real disk.
func sfNoRead(c *core.Ctx, h *fsf, r *rand.Rand, o storeOp, label string, cfg config.Storage, p sfProfile) (*fsfInject, bool) {
	idx := filepath.Join(h.boxPath(o.box), "index.gob")
	aside := idx + ".unreadable-aside"
	if fi, err := os.Lstat(idx); err != nil || !fi.Mode().IsRegular() {
		_, in := h.step(o, nil, "no fault (the mailbox has no index that could be unreadable)", false)
		return in, false
	}
	if os.Rename(idx, aside) != nil {
		_, in := h.step(o, nil, "no fault", false)
		return in, false
	}
	if err := syscall.Mknod(idx, syscall.S_IFSOCK|0o660, 0); err != nil {
		os.Rename(aside, idx)
		c.H("storefault:noread-not-injectable")
		_, in := h.step(o, nil, "no fault (no socket node can be made here: "+err.Error()+")", false)
		return in, false
	}
	lifted := false
	lift := func() {
		if lifted {
			return
		}
		lifted = true
		if fi, err := os.Lstat(idx); err == nil && fi.Mode()&os.ModeSocket != 0 {
			os.Remove(idx)
			os.Rename(aside, idx)
		} else {
			os.Remove(aside)
		}
	}
	defer lift()
	if r.Intn(100) < p.restartPct/2 {
		// the index became unreadable while the server was down (a restore with wrong modes): the server starts on it
		if st, err := file.New(cfg, h.host); err == nil {
			h.st = st
			h.trace = append(h.trace, "restart while the index cannot be opened")
		}
	}
	// a read under the fault (judged after the operation, so that what the operation itself does to the mailbox is reported first)
	ms, rerr := h.st.GetMessages(o.box)
	probe := h.lines(fmt.Sprintf("GetMessages(%q) while its index.gob cannot be opened (ENXIO)", o.box))
	was := h.before[o.box]
	c.Compared(1)
	h.afterOp = lift
	h.extra = "noread=1"
	_, in := h.step(o, nil, label, false)
	h.afterOp = nil
	h.extra = ""
	if rerr == nil {
		c.Fail("unreadable-index-is-not-an-empty-mailbox", probe, fmt.Sprintf("GetMessages(%q) answered %d messages and no error while the mailbox's index could not be opened; the mailbox listed %s before", o.box, len(ms), c11Short(was)), "")
	}
	return in, true
}

func sfKeys(m map[int]bool) []int {
	l := []int{}
	for k := range m {
		l = append(l, k)
	}
	sort.Ints(l)
	return l
}

func sfID(m interface{ ID() string }) string {
	if m == nil || fmt.Sprintf("%v", m) == "<nil>" {
		return "none"
	}
	return m.ID()
}

var _ = strconv.Itoa
var _ = strings.Join
