package main

// The system-level correspondence (sys.go, Model.Sys / Props.Sys) runs as a leg of the two properties whose statements are about
// the composed system: C01 (an accepted message is in every recipient's mailbox whatever the protocol that looks) and C14 (REST
// answers are the store's).  A failure is reported under the property whose check ran it.

import "verif/harness/internal/core"

func init() {
	prev := extra["C01"]
	extra["C01"] = func(c *core.Ctx) {
		if prev != nil {
			prev(c)
		}
		sysLegN(c, 600, 8000)
	}
	extra["C14"] = func(c *core.Ctx) { sysLegN(c, 600, 8000) }
}
