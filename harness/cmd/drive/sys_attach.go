package main

// The composed legs — the system-level correspondence (sys.go: real components assembled by the harness against Model.Sys / Props.Sys) and the
// assembly correspondence (asm.go / asm_bin.go: config.Process + server.FullAssembly + Services.Start, and the real cmd/inbucket binary, driven
// over their network interfaces) — run as legs of the properties whose statements are about the composed program.  Such a leg observes many
// properties at once; under a property's check only the oracles and correspondences that speak about THAT property are reported (legScope);
// `./check SYS` and `./check ASM` run them stand-alone with everything in scope.

import (
	"strings"

	"verif/harness/internal/core"
)

// always in scope: the leg itself did not run (a broken correspondence whatever the property)
var legInfra = []string{"sys-child-process", "asm-child-process", "sys-driver", "hub-driver", "asm-binary-builds", "asm-binary-starts", "binary-starts-and-listens",
	"smtp-session-works", "pop3-session-works", "store-works", "visit-works", "monitor-is-reachable", "go-client-works", "signal-is-delivered", "no-panic", "no-handler-panic"}

var legScopes = map[string][]string{
	"C01": {"stored-once-per-acknowledged-recipient", "acknowledged-mail-is-stored", "sys-smtp-replies", "sys-final-store", "sys-store-add", "asm-final-mailboxes",
		"mail-is-fetchable-by-address", "size-is-length", "delivery-evicts-only-over-cap", "delivery-evicts-only-over-limit"},
	"C04": {"mail-is-fetchable-by-address", "mailbox-name-is-a-fixed-point", "acknowledged-mail-is-stored"},
	"C05": {"accept-rule", "origin-rule", "store-rule", "sys-smtp-replies", "stored-once-per-acknowledged-recipient", "acknowledged-mail-is-stored"},
	"C07": {"ids-distinct", "listing-", "get-returns-asked-message", "no-nil-nil", "listed-message-was-delivered", "delivered-stays", "deleted-means-gone",
		"no-crash", "no-deadlock", "store-construction", "op-error"},
	"C08": {"cap-bound", "size-bound", "delivery-evicts-only-over-cap", "delivery-evicts-only-over-limit", "delivered-stays", "no-crash", "no-deadlock", "store-construction", "op-error"},
	"C10": {"delivered-stays", "listed-message-was-delivered", "deleted-means-gone", "ids-distinct", "listing-", "get-returns-asked-message", "read-back-intact",
		"no-crash", "no-deadlock", "store-construction", "op-error"},
	"C12": {"delivered-stays", "op-error", "retention-scan-never-errors", "visit-never-errors", "visit-sees-stable-mailbox", "no-crash", "no-deadlock", "store-construction",
		"service-failure-shuts-the-program-down", "shutdown-completes", "clean-shutdown-exits-zero"},
	"C14": {"sys-rest-", "rest-", "go-client-", "missing-is-404", "listed-is-fetchable", "removed-is-gone", "failed-request-changes-nothing", "request-changes-only-what-it-says",
		"held-message-is-found", "api-is-served-under-the-base-path", "webui-", "nothing-is-served-outside-the-base-path", "root-redirects-to-the-base-path",
		"expvar-is-served-under-the-base-path", "asm-final-mailbox-over-rest", "mail-is-fetchable-by-address", "mailbox-name-is-a-fixed-point"},
	"C15": {"monitor-", "history-", "hub-listener-", "asm-monitor-history", "events-are-delivered",
		"exactly-once", "arrival-order", "stored-before-deleted", "hub-history", "e2e-setup", "delivery-events-exact"},
	"C19": {"shutdown-completes", "drain-", "open-session-", "no-new-connection-after-shutdown", "service-failure-shuts-the-program-down", "clean-shutdown-exits-zero", "no-dropped-connection"},
}

func legScope(prop string) func(string) bool {
	pre, ok := legScopes[prop]
	if !ok {
		return nil
	}
	return func(name string) bool {
		for _, p := range append(append([]string{}, legInfra...), pre...) {
			if name == p || (strings.HasSuffix(p, "-") && strings.HasPrefix(name, p)) {
				return true
			}
		}
		return false
	}
}

func scoped(c *core.Ctx, f func()) {
	old := c.Scope
	c.Scope = legScope(c.Prop)
	defer func() { c.Scope = old }()
	f()
}

func attach(id string, leg func(c *core.Ctx)) {
	prev := extra[id]
	extra[id] = func(c *core.Ctx) {
		if prev != nil {
			prev(c)
		}
		scoped(c, func() { leg(c) })
	}
}

func init() {
	attach("C01", func(c *core.Ctx) { sysLegN(c, 600, 8000) })
	attach("C04", func(c *core.Ctx) { sysLegN(c, 400, 6000) })
	// the ordered-mailbox contract under concurrent clients (ids unique, listings = deliveries in order, get returns the asked message)
	attach("C07", func(c *core.Ctx) { c09Legs(c, map[string]bool{"mem-plain": true, "file-plain": true}) })
	// the limits under concurrent use (the accounting of the size enforcer drifts only when removals race with its evictions)
	attach("C08", func(c *core.Ctx) {
		c09Legs(c, map[string]bool{"mem-cap": true, "mem-limit": true, "mem-cap-limit": true, "stress-mem": true})
	})
	// what is on disk stays what was acknowledged also when the clients of the file store overlap (readers that mark, deliveries, removals)
	attach("C10", func(c *core.Ctx) { c09Legs(c, map[string]bool{"file-plain": true, "file-cap": true, "stress-file": true}) })
	// the scanner against live traffic on the real stores: mailboxes come and go, old mail expires while fresh mail arrives in the same mailbox
	attach("C12", func(c *core.Ctx) { c09Legs(c, map[string]bool{"visit-file": true, "visit-mem": true}) })
	// the scanner inside the real program: whichever way shutdown comes (a signal, a service that could not start) its loop ends and Join returns
	attach("C12", func(c *core.Ctx) { asmBinLegN(c, 4, 40) })
	attach("C14", func(c *core.Ctx) { sysLegN(c, 600, 8000); asmLegN(c, 16, 200) })
	attach("C05", func(c *core.Ctx) { asmLegN(c, 16, 200) })
	// the hub as the program wires it: registered on a real extension.Host, fed by real stores under concurrent deliveries / removals / purges
	// ... and what reaches the event brokers (hence the hub) when mail is delivered through the real manager: multi-recipient, capped, failing stores
	attach("C15", func(c *core.Ctx) { c16bE2E(c); runC16Deliver(c); asmLegN(c, 24, 300) })
	attach("C19", func(c *core.Ctx) { asmLegN(c, 24, 300) })
}
