package main

// C07 / C10 leg "bigmeta": metadata is data too.
//
// "metadata/size/content/seen-flag read back as written" (C07) and "a restart shows exactly the mail that was there" (C10) hold whatever
// the SIZE of what was written: a subject of a megabyte, a To list of thousands of addresses, many such messages in one mailbox.  The
// store histories elsewhere use metadata of a few dozen bytes, so an index that outgrows some buffer or limit was never produced.  Here a
// mailbox's index grows to several MiB message by message; after EVERY delivery the mailbox is listed and every message read back (metadata
// and content), a neighbour mailbox stays as it was, a walk over all mailboxes sees both, and the file store is reopened.
// Implementation-only oracles; both back-ends must answer alike (the memory store is the reference the property names).

import (
	"bytes"
	"fmt"
	"io"
	"math/rand"
	"net/mail"
	"os"
	"path/filepath"
	"strings"
	"time"

	"github.com/inbucket/inbucket/v3/pkg/config"
	"github.com/inbucket/inbucket/v3/pkg/extension"
	"github.com/inbucket/inbucket/v3/pkg/extension/event"
	"github.com/inbucket/inbucket/v3/pkg/message"
	"github.com/inbucket/inbucket/v3/pkg/storage"
	"github.com/inbucket/inbucket/v3/pkg/storage/file"
	"github.com/inbucket/inbucket/v3/pkg/storage/mem"

	"verif/harness/internal/core"
)

type bigMsg struct {
	id      string
	subject string
	to      []string
	body    []byte
}

func bigLetters(r *rand.Rand, n int) string {
	b := make([]byte, n)
	for i := range b {
		b[i] = byte('a' + r.Intn(26))
	}
	return string(b)
}

func c07BigMeta(c *core.Ctx) {
	r := c.SubRng("c07-bigmeta")
	rounds := c.Scale(1, 4)
	for round := 0; round < rounds; round++ {
		for _, kind := range []string{"mem", "file"} {
			dir := filepath.Join(c.Workdir, fmt.Sprintf("c07-big-%d-%d", os.Getpid(), round))
			os.RemoveAll(dir)
			cfg := config.Storage{MailboxMsgCap: []int{0, 500}[r.Intn(2)], Params: map[string]string{}}
			open := func() (storage.Store, error) {
				if kind == "mem" {
					return mem.New(cfg, extension.NewHost())
				}
				cfg.Params["path"] = dir
				return file.New(cfg, extension.NewHost())
			}
			st, err := open()
			if err != nil {
				c.Note("c07 bigmeta: %v", err)
				continue
			}
			shape := []string{"long-subjects", "many-recipients", "mixed"}[(round+len(kind))%3]
			trace := []string{fmt.Sprintf("%s store, cap %d: mailbox \"big\" receives messages with %s; after every delivery everything is read back", kind, cfg.MailboxMsgCap, shape)}
			var want []*bigMsg
			deliver := func(box string, subj string, to []string, body []byte) (string, error) {
				tos := make([]*mail.Address, len(to))
				for i, a := range to {
					tos[i] = &mail.Address{Address: a}
				}
				return st.AddMessage(&message.Delivery{Meta: event.MessageMetadata{Mailbox: box, From: &mail.Address{Name: "Sender", Address: "s@src.net"}, To: tos,
					Date: time.Now(), Subject: subj}, Reader: io.NopCloser(bytes.NewReader(body))})
			}
			nid, err := deliver("neighbour", "small", []string{"n@dest.org"}, []byte("Subject: small\r\n\r\nneighbour\r\n"))
			if err != nil {
				c.Fail("store-op-works", trace, "AddMessage(neighbour): "+err.Error(), "")
				continue
			}
			check := func(st storage.Store, when string) bool {
				ms, err := st.GetMessages("big")
				if err != nil {
					c.Fail("listing-works", append(append([]string{}, trace...), when), fmt.Sprintf("GetMessages(\"big\") after %d deliveries whose metadata adds up to %d KiB: %v", len(want), bigTotal(want)/1024, err), "")
					return false
				}
				if len(ms) != len(want) {
					c.Fail("listing-is-what-was-delivered", append(append([]string{}, trace...), when), fmt.Sprintf("mailbox \"big\" lists %d messages, %d were delivered and none removed", len(ms), len(want)), "")
					return false
				}
				for i, m := range ms {
					w := want[i]
					c.Compared(1)
					var to []string
					for _, a := range m.To() {
						to = append(to, a.Address)
					}
					if m.ID() != w.id || m.Subject() != w.subject || strings.Join(to, ",") != strings.Join(w.to, ",") || m.Size() != int64(len(w.body)) {
						c.Fail("metadata-reads-back-as-written", append(append([]string{}, trace...), when), fmt.Sprintf("message %d of \"big\": id %s (want %s), subject of %d bytes (want %d, equal=%v), %d recipients (want %d), size %d (want %d)",
							i+1, m.ID(), w.id, len(m.Subject()), len(w.subject), m.Subject() == w.subject, len(to), len(w.to), m.Size(), len(w.body)), "")
						return false
					}
					g, err := st.GetMessage("big", w.id)
					if err != nil || g == nil {
						c.Fail("get-returns-asked-message", append(append([]string{}, trace...), when), fmt.Sprintf("GetMessage(\"big\", %s): %v", w.id, err), "")
						return false
					}
					rd, err := g.Source()
					if err != nil {
						c.Fail("content-reads-back-as-written", append(append([]string{}, trace...), when), fmt.Sprintf("Source() of big/%s: %v", w.id, err), "")
						return false
					}
					b, _ := io.ReadAll(rd)
					rd.Close()
					if !bytes.Equal(b, w.body) {
						c.Fail("content-reads-back-as-written", append(append([]string{}, trace...), when), fmt.Sprintf("big/%s reads back %d bytes, %d were delivered", w.id, len(b), len(w.body)), "")
						return false
					}
				}
				if ns, err := st.GetMessages("neighbour"); err != nil || len(ns) != 1 || ns[0].ID() != nid {
					c.Fail("removal-affects-only-the-named-message", append(append([]string{}, trace...), when), fmt.Sprintf("mailbox \"neighbour\" (one small message, never touched) now answers %d messages, err %v", len(ns), err), "")
					return false
				}
				seen := map[string]int{}
				if err := st.VisitMailboxes(func(ms []storage.Message) bool {
					if len(ms) > 0 {
						seen[ms[0].Mailbox()] = len(ms)
					}
					return true
				}); err != nil || seen["big"] != len(want) || seen["neighbour"] != 1 {
					c.Fail("visit-sees-every-mailbox", append(append([]string{}, trace...), when), fmt.Sprintf("VisitMailboxes: err %v, saw %v; \"big\" holds %d, \"neighbour\" 1", err, seen, len(want)), "")
					return false
				}
				return true
			}
			ok := true
			n := 5 + r.Intn(3)
			for i := 0; i < n && ok; i++ {
				w := &bigMsg{subject: fmt.Sprintf("s%d", i), to: []string{"r@dest.org"}}
				if shape == "long-subjects" || (shape == "mixed" && i%2 == 0) {
					w.subject = fmt.Sprintf("s%d-", i) + bigLetters(r, 700*1024+r.Intn(600*1024))
				}
				if shape == "many-recipients" || (shape == "mixed" && i%2 == 1) {
					w.to = nil
					for k, m := 0, 20000+r.Intn(20000); k < m; k++ {
						w.to = append(w.to, fmt.Sprintf("recipient-%d-%d@a-rather-long-domain-name-%d.example.org", i, k, k%97))
					}
				}
				w.body = []byte(fmt.Sprintf("Subject: s%d\r\n\r\nbody %d %s\r\n", i, i, bigLetters(r, 50+r.Intn(400))))
				id, err := deliver("big", w.subject, w.to, w.body)
				trace = append(trace, fmt.Sprintf("deliver to \"big\": subject of %d bytes, %d recipients, %d bytes of content", len(w.subject), len(w.to), len(w.body)))
				if err != nil {
					c.Fail("store-op-works", trace, fmt.Sprintf("AddMessage #%d (metadata so far %d KiB): %v", i+1, bigTotal(want)/1024, err), "")
					ok = false
					break
				}
				w.id = id
				want = append(want, w)
				ok = check(st, fmt.Sprintf("after delivery %d", i+1))
				if ok && kind == "file" && (i == n-1 || r.Intn(3) == 0) {
					st2, err := open()
					if err != nil {
						c.Fail("store-construction", trace, "reopen: "+err.Error(), "")
						ok = false
						break
					}
					st = st2
					trace = append(trace, "store closed and reopened")
					ok = check(st, fmt.Sprintf("after delivery %d and a restart", i+1))
				}
			}
			if ok && len(want) > 2 {
				// removal and mark-seen still work on the grown mailbox
				victim := want[1]
				if err := st.RemoveMessage("big", victim.id); err != nil {
					c.Fail("store-op-works", trace, fmt.Sprintf("RemoveMessage(big, %s): %v", victim.id, err), "")
				} else {
					want = append(want[:1], want[2:]...)
					trace = append(trace, "remove the second message of \"big\"")
					check(st, "after the removal")
				}
			}
			c.H("bigmeta:" + kind + ":" + shape)
			c.Count(fmt.Sprintf("bigmeta %s %s %d", kind, shape, round), true)
			os.RemoveAll(dir)
		}
	}
}

func bigTotal(ms []*bigMsg) int {
	t := 0
	for _, m := range ms {
		t += len(m.subject)
		for _, a := range m.to {
			t += len(a)
		}
	}
	return t
}

func init() {
	for _, id := range []string{"C07", "C10"} {
		id := id
		prev := extra[id]
		extra[id] = func(c *core.Ctx) {
			if prev != nil {
				prev(c)
			}
			c07BigMeta(c)
		}
	}
}
