package main

// C16, file store, TWO OPERATIONS ON THE SAME MAILBOX AT ONCE.
//
// Props/C16File.lean proves that, with every operation of file.Store holding its mailbox lock from start to end (the T1
// facts of Tie/FileLock.lean), every concurrent history of one mailbox has exactly the listing and the `deleted` events of
// the operations run one after the other in the order in which they got the lock — and that this fails (a delivery lost
// without a `deleted` event; a message announced twice) as soon as AddMessage gives the lock up around the copy of the body.
// This leg ties that to the running code.
//
// (1) Deterministic overlap.  Operation A runs on the real file store; the verif step hook (called on A's goroutine right
//     before a chosen file-system mutation of A: create-raw, copy-raw, the create / rename of the delivery's own index write,
//     an eviction's first step, …) starts a second goroutine performing operation B on the SAME mailbox — a delivery, a
//     RemoveMessage of an older message, a PurgeMessages, a delivery that evicts under a small cap, a MarkSeen — and waits
//     at most 50 ms for it to finish.  On a tree whose operations hold the lock throughout, B cannot finish inside the window
//     and completes after A; on a tree with a narrower lock it completes inside.  Either way, when both have returned (and
//     again after a final PurgeMessages) the implementation-only oracles are judged:
//       deleted-exactly-once-per-departed-message   every acknowledged delivery that is no longer listed has exactly one
//             `deleted` event with its mailbox / id, no listed message has one, no event names an id nobody delivered, no
//             id is listed twice (events recorded by a listener on a real extension.Host with the async broker, synchronised
//             with a sentinel event through the same FIFO — never with a sleep);
//       store-contract   every acknowledged delivery whose removal nobody announced is listed and readable with its own
//             content, and no operation failed.
//     T2: the operations are then fed, in the order in which their first hooked step was observed (the order of lock
//     acquisition, A's before B's), to the sequential meaning of the interleaving model (`serial` of driver mode crash =
//     `seqStep` of Ibx/Model/ConcFileOps.lean, the right-hand side of theorem `serialisable`) and the final listing with
//     contents and the sequence of `deleted` events are compared.
// (2) Stress.  Eight clients released at the same instant on one mailbox of a file store with a small cap, each running a
//     few random operations; the step hook records, per operation, the global sequence number of its first hooked step
//     (taken under the lock); same oracles, same T2 over the order so observed (operations that never reach a hooked step —
//     a removal that finds nothing, a read — change nothing and are left out of the replay).

import (
	"bytes"
	"fmt"
	"io"
	"math/rand"
	"net/mail"
	"os"
	"path/filepath"
	"runtime"
	"sort"
	"strconv"
	"strings"
	"sync"
	"sync/atomic"
	"time"

	"github.com/inbucket/inbucket/v3/pkg/config"
	"github.com/inbucket/inbucket/v3/pkg/extension"
	"github.com/inbucket/inbucket/v3/pkg/extension/event"
	"github.com/inbucket/inbucket/v3/pkg/message"
	"github.com/inbucket/inbucket/v3/pkg/storage"
	"github.com/inbucket/inbucket/v3/pkg/storage/file"
	"github.com/inbucket/inbucket/v3/pkg/stringutil"

	"verif/harness/internal/core"
)

func init() {
	prev := extra["C16"]
	extra["C16"] = func(c *core.Ctx) {
		if prev != nil {
			prev(c)
		}
		c16Overlap(c)
	}
	register("C16OVL", func(c *core.Ctx) {
		c.Res.Rule = "the same-mailbox overlap leg of C16 alone (for the builder's use)"
		c16Overlap(c)
	})
}

const ovlBarrierBox = "\x00overlap-barrier"
const ovlWindow = 50 * time.Millisecond

// goid: the id of the calling goroutine (the step hook carries no context; the harness tells A's steps from B's by it)
func ovlGoid() int64 {
	var buf [64]byte
	n := runtime.Stack(buf[:], false)
	f := strings.Fields(string(buf[:n]))
	if len(f) < 2 {
		return -1
	}
	id, err := strconv.ParseInt(f[1], 10, 64)
	if err != nil {
		return -1
	}
	return id
}

// ---------------------------------------------------------------- one store with a recording listener

type ovlOp struct {
	storeOp
	target string // real id addressed by rm / seen
	// filled by the run
	realID string
	err    error
	seq    int64 // global sequence number of the first hooked step (0 = the operation never reached one)
	who    int
}

type ovl struct {
	*c11Enc
	c    *core.Ctx
	m    *core.Model
	root string
	cap  int
	box  string
	st   storage.Store
	host *extension.Host

	mu       sync.Mutex
	deleted  [][2]string
	barrier  chan string
	barrierN int

	ranks  int32          // deliveries attempted (rank of the last one)
	acked  map[string]int // real id -> rank, every acknowledged delivery
	trace  []string       // what was done, for the failing input
	mtrace []string       // lines sent to the model
}

func ovlOpen(c *core.Ctx, m *core.Model, label string, cap int, box string) (*ovl, func()) {
	root := filepath.Join(c.Workdir, fmt.Sprintf("c16-overlap-%d-%s", os.Getpid(), label))
	os.MkdirAll(root, 0o755)
	cleanup := func() { os.RemoveAll(root) }
	h := &ovl{c11Enc: newC11Enc(), c: c, m: m, root: root, cap: cap, box: box, barrier: make(chan string, 4), acked: map[string]int{}}
	h.ranks = 0
	h.c11Enc.ranks[box] = map[string]int{}
	h.c11Enc.bodies[box] = map[int][]byte{}
	h.host = extension.NewHost()
	h.host.Events.AfterMessageDeleted.AddListener("verif-overlap", func(md event.MessageMetadata) {
		if md.Mailbox == ovlBarrierBox {
			h.barrier <- md.ID
			return
		}
		h.mu.Lock()
		h.deleted = append(h.deleted, [2]string{md.Mailbox, md.ID})
		h.mu.Unlock()
	})
	st, err := file.New(config.Storage{MailboxMsgCap: cap, Params: map[string]string{"path": root}}, h.host)
	if err != nil {
		c.Fail("setup", nil, err.Error(), "")
		return nil, cleanup
	}
	h.st = st
	hash := stringutil.HashMailboxName(box)
	l1, _ := strconv.ParseUint(hash[:3], 16, 64)
	l2, _ := strconv.ParseUint(hash[:6], 16, 64)
	h.trace = append(h.trace, fmt.Sprintf("file store, MailboxMsgCap=%d, mailbox %q", cap, box))
	for _, l := range []string{fmt.Sprintf("cfg cap=%d variant=safe", cap), fmt.Sprintf("box %s l1=%d l2=%d", core.HexS(box), l1, l2)} {
		h.mtrace = append(h.mtrace, l)
		if m != nil {
			if a := m.Ask(l); a != "ok" {
				c.Diverge("c16-overlap-driver", h.lines(), "ok", a)
				return nil, cleanup
			}
		}
	}
	return h, cleanup
}

func (h *ovl) lines(extra ...string) []string {
	res := append([]string{}, h.trace...)
	res = append(res, extra...)
	res = append(res, "-- the same to the model (ids are delivery ranks):")
	return append(res, h.mtrace...)
}

// sync with the asynchronous broker: everything emitted before the sentinel has been delivered when the sentinel arrives
func (h *ovl) sync() bool {
	h.barrierN++
	want := strconv.Itoa(h.barrierN)
	h.host.Events.AfterMessageDeleted.Emit(&event.MessageMetadata{Mailbox: ovlBarrierBox, ID: want})
	deadline := time.After(20 * time.Second)
	for {
		select {
		case got := <-h.barrier:
			if got == want {
				return true
			}
		case <-deadline:
			return false
		}
	}
}

func (h *ovl) newAdd(r *rand.Rand) *ovlOp {
	k := int(atomic.AddInt32(&h.ranks, 1))
	body := make([]byte, 24+r.Intn(200))
	copy(body, fmt.Sprintf("Subject: t%d\r\n\r\n", k))
	for i := 16; i < len(body); i++ {
		body[i] = byte('a' + r.Intn(26))
	}
	to := make([]string, r.Intn(3))
	for i := range to {
		to[i] = fmt.Sprintf("rcpt%d@dest.org", r.Intn(9))
	}
	return &ovlOp{storeOp: storeOp{kind: "add", box: h.box, id: k, body: body, from: fmt.Sprintf("s%d@src.net", r.Intn(5)), to: to,
		subj: fmt.Sprintf("t%d", k), date: 1700000000 + int64(k)*17}}
}

// do: one operation on the real store (panics are outcomes)
func (h *ovl) do(o *ovlOp) {
	defer func() {
		if p := recover(); p != nil {
			o.err = fmt.Errorf("panic: %v", p)
		}
	}()
	switch o.kind {
	case "add":
		tos := make([]*mail.Address, len(o.to))
		for i, t := range o.to {
			tos[i] = &mail.Address{Address: t}
		}
		d := &message.Delivery{Meta: event.MessageMetadata{Mailbox: o.box, From: &mail.Address{Address: o.from}, To: tos,
			Date: time.Unix(o.date, 0), Subject: o.subj}, Reader: io.NopCloser(bytes.NewReader(o.body))}
		o.realID, o.err = h.st.AddMessage(d)
	case "rm":
		o.err = h.st.RemoveMessage(o.box, o.target)
	case "seen":
		o.err = h.st.MarkSeen(o.box, o.target)
	case "purge":
		o.err = h.st.PurgeMessages(o.box)
	case "list":
		var ms []storage.Message
		ms, o.err = h.st.GetMessages(o.box)
		seen := map[string]bool{}
		for _, m := range ms {
			if seen[m.ID()] {
				o.err = fmt.Errorf("GetMessages lists id %s twice", m.ID())
			}
			seen[m.ID()] = true
		}
	}
}

// register an acknowledged delivery (after the run: the maps are not shared with running operations)
func (h *ovl) ack(o *ovlOp) {
	if o.kind != "add" || o.err != nil {
		return
	}
	h.c11Enc.ranks[h.box][o.realID] = o.id
	h.c11Enc.bodies[h.box][o.id] = o.body
	h.acked[o.realID] = o.id
}

func (o *ovlOp) describe(h *ovl) string {
	switch o.kind {
	case "add":
		return fmt.Sprintf("AddMessage(rank %d, %d bytes)", o.id, len(o.body))
	case "rm":
		return fmt.Sprintf("RemoveMessage(rank %d)", h.acked[o.target])
	case "seen":
		return fmt.Sprintf("MarkSeen(rank %d)", h.acked[o.target])
	case "purge":
		return "PurgeMessages"
	}
	return "GetMessages"
}

func (o *ovlOp) outcome() string {
	if o.err == storage.ErrNotExist {
		return "notExist"
	}
	if o.err != nil {
		return "error: " + o.err.Error()
	}
	return "ok"
}

// modelLine: the operation in the driver's syntax (ids = ranks); "" for what the replay leaves out
func (o *ovlOp) modelLine(h *ovl) string {
	switch o.kind {
	case "add":
		return "serial " + c11Line(o.storeOp)
	case "rm", "seen":
		rank, ok := h.acked[o.target]
		if !ok {
			return ""
		}
		so := o.storeOp
		so.id = rank
		return "serial " + c11Line(so)
	case "purge":
		return "serial " + c11Line(o.storeOp)
	}
	return ""
}

// judge: the two oracles on the implementation alone; returns false when something failed
func (h *ovl) judge(when string) bool {
	if !h.sync() {
		h.c.Fail("deleted-exactly-once-per-departed-message", h.lines(when), "the sentinel event did not come back through the asynchronous broker within 20 s", "")
		return false
	}
	ms, err := h.st.GetMessages(h.box)
	if err != nil {
		h.c.Fail("store-contract", h.lines(when), "GetMessages failed: "+err.Error(), "")
		return false
	}
	listed := map[string]bool{}
	ok := true
	for _, m := range ms {
		if listed[m.ID()] {
			h.c.Fail("deleted-exactly-once-per-departed-message", h.lines(when), fmt.Sprintf("id %s (rank %d) is listed twice", m.ID(), h.acked[m.ID()]), "")
			ok = false
		}
		listed[m.ID()] = true
	}
	h.mu.Lock()
	events := map[string]int{}
	for _, e := range h.deleted {
		if e[0] != h.box {
			h.c.Fail("deleted-exactly-once-per-departed-message", h.lines(when), fmt.Sprintf("a deleted event for mailbox %q, which nobody used", e[0]), "")
			ok = false
		}
		events[e[1]]++
	}
	h.mu.Unlock()
	ids := make([]string, 0, len(h.acked))
	for id := range h.acked {
		ids = append(ids, id)
	}
	sort.Slice(ids, func(i, j int) bool { return h.acked[ids[i]] < h.acked[ids[j]] })
	for _, id := range ids {
		h.c.Compared(1)
		n := events[id]
		switch {
		case listed[id] && n != 0:
			h.c.Fail("deleted-exactly-once-per-departed-message", h.lines(when),
				fmt.Sprintf("the delivery of rank %d (id %s) is listed in the mailbox and has %d deleted event(s)", h.acked[id], id, n), "")
			ok = false
		case !listed[id] && n != 1:
			h.c.Fail("deleted-exactly-once-per-departed-message", h.lines(when),
				fmt.Sprintf("the acknowledged delivery of rank %d (id %s) is no longer listed and has %d deleted events (exactly one is due)", h.acked[id], id, n), "")
			ok = false
		}
		if n == 0 && !listed[id] {
			h.c.Fail("store-contract", h.lines(when),
				fmt.Sprintf("the acknowledged delivery of rank %d (id %s), whose removal nobody announced, is not listed", h.acked[id], id), "")
			ok = false
		}
	}
	for id, n := range events {
		if _, known := h.acked[id]; !known {
			h.c.Fail("deleted-exactly-once-per-departed-message", h.lines(when), fmt.Sprintf("%d deleted event(s) for id %s, which no acknowledged delivery carries", n, id), "")
			ok = false
		}
	}
	// every listed message reads back with its own content
	_, problems, lerr := h.c11Enc.list(h.st, h.box)
	h.c.Compared(len(ms))
	if lerr != nil {
		h.c.Fail("store-contract", h.lines(when), "listing the mailbox failed: "+lerr.Error(), "")
		ok = false
	}
	for _, p := range problems {
		h.c.Fail("store-contract", h.lines(when), "a listed message does not read back as delivered: "+p, "")
		ok = false
	}
	return ok
}

// replay: T2 — the operations in the observed order of their first hooked steps through the sequential model
func (h *ovl) replay(ops []*ovlOp, when string) {
	if h.m == nil {
		return
	}
	ord := []*ovlOp{}
	for _, o := range ops {
		if o.seq > 0 {
			ord = append(ord, o)
		}
	}
	sort.SliceStable(ord, func(i, j int) bool { return ord[i].seq < ord[j].seq })
	modelEvents := []string{}
	last := ""
	for _, o := range ord {
		l := o.modelLine(h)
		if l == "" {
			continue
		}
		h.mtrace = append(h.mtrace, l)
		a := h.m.Ask(l)
		last = a
		f := strings.Fields(a)
		if len(f) < 3 || !strings.HasPrefix(f[0], "res=") || !strings.HasPrefix(f[1], "events=") {
			h.c.Diverge("c16-overlap-driver", h.lines(when), "res=… events=… views", a)
			return
		}
		// the answer of the operation
		want := map[string]string{"ok": "ok", "notExist": "notExist"}[o.outcome()]
		if o.kind == "add" && o.err == nil {
			want = fmt.Sprintf("id:%d", o.id)
		}
		h.c.Compared(1)
		if got := strings.TrimPrefix(f[0], "res="); got != want {
			h.c.Diverge("c16-overlap-serial", h.lines(when, "answer of "+o.describe(h)), o.outcome(), got)
			return
		}
		if ev := strings.TrimPrefix(f[1], "events="); ev != "_" {
			modelEvents = append(modelEvents, strings.Split(ev, ",")...)
		}
	}
	h.mu.Lock()
	implEvents := []string{}
	for _, e := range h.deleted {
		if r, ok := h.acked[e[1]]; ok {
			implEvents = append(implEvents, strconv.Itoa(r))
		} else {
			implEvents = append(implEvents, "?"+e[1])
		}
	}
	h.mu.Unlock()
	h.c.Compared(1)
	if strings.Join(implEvents, ",") != strings.Join(modelEvents, ",") {
		h.c.Diverge("c16-overlap-serial", h.lines(when, "the sequence of deleted events (ranks)"), strings.Join(implEvents, ","), strings.Join(modelEvents, ","))
		return
	}
	if last != "" {
		entries, _, err := h.c11Enc.list(h.st, h.box)
		impl := core.HexS(h.box) + "=" + c11View(entries, err)
		f := strings.Fields(last)
		h.c.Compared(1)
		if model := f[len(f)-1]; impl != model {
			h.c.Diverge("c16-overlap-serial", h.lines(when, "the final listing with contents"), impl, model)
		}
	}
}

// ---------------------------------------------------------------- (1) deterministic overlap

// the hooked steps at which B may be started, per kind of A
var ovlTriggers = map[string][]string{
	"add":   {"create-raw", "copy-raw", "index-create", "index-rename", "first"},
	"rm":    {"first", "rename", "unlink-raw"},
	"seen":  {"first", "rename"},
	"purge": {"first", "removeall"},
}

var ovlKindsB = []string{"add", "rm", "purge", "seen", "add"}

func c16Overlap(c *core.Ctx) {
	c16FsMu.Lock()
	defer c16FsMu.Unlock()
	defer func() { file.VerifStepHook = nil }()
	start := time.Now()
	r := c.SubRng("c16-overlap")
	m := c.NewModel("crash")
	defer m.Close()
	n := c.Scale(50, 1200)
	inside := 0
	for i := 0; i < n; i++ {
		if ovlScenario(c, m, r, i) {
			inside++
		}
	}
	c.Note("C16 overlap: %d scenarios with a second operation started on the same mailbox from inside the first (B finished inside the window in %d of them), %.1fs",
		n, inside, time.Since(start).Seconds())
	t1 := time.Now()
	rounds := c.Scale(8, 300)
	nops := 0
	for i := 0; i < rounds; i++ {
		nops += ovlStress(c, m, r, i)
	}
	c.Note("C16 overlap stress: %d rounds of 8 clients on one mailbox, %d operations, %.1fs", rounds, nops, time.Since(t1).Seconds())
}

func ovlScenario(c *core.Ctx, m *core.Model, r *rand.Rand, idx int) (bInside bool) {
	kindA := "add"
	if idx%7 == 6 {
		kindA = []string{"rm", "seen", "purge"}[(idx/7)%3]
	}
	trigs := ovlTriggers[kindA]
	trigger := trigs[(idx/len(ovlKindsB))%len(trigs)]
	kindB := ovlKindsB[idx%len(ovlKindsB)]
	cap := []int{0, 0, 3, 2, 4}[r.Intn(5)]
	if kindB == "add" && idx%len(ovlKindsB) == 4 && cap == 0 {
		cap = 2 + r.Intn(2) // the second delivery variant is the one that evicts
	}
	pre := 1 + r.Intn(3)
	if cap > 0 && idx%len(ovlKindsB) == 4 {
		pre = cap // the mailbox is at its cap: both deliveries evict
	}
	if cap > 0 && pre > cap {
		pre = cap
	}
	h, cleanup := ovlOpen(c, m, fmt.Sprintf("s%d", idx), cap, fmt.Sprintf("ovl%d", idx))
	defer cleanup()
	if h == nil {
		return false
	}
	var all []*ovlOp
	var seq int64
	// prepopulate, sequentially
	file.VerifStepHook = nil
	for i := 0; i < pre; i++ {
		o := h.newAdd(r)
		h.do(o)
		seq++
		o.seq = seq
		h.ack(o)
		all = append(all, o)
		h.trace = append(h.trace, fmt.Sprintf("%s -> %s", o.describe(h), o.outcome()))
		if o.err != nil {
			c.Fail("store-contract", h.lines(), "a delivery to a quiet mailbox failed: "+o.err.Error(), "")
			return false
		}
	}
	oldest := all[0].realID
	mk := func(kind string) *ovlOp {
		switch kind {
		case "add":
			return h.newAdd(r)
		case "rm":
			return &ovlOp{storeOp: storeOp{kind: "rm", box: h.box}, target: oldest}
		case "seen":
			return &ovlOp{storeOp: storeOp{kind: "seen", box: h.box}, target: all[r.Intn(len(all))].realID}
		}
		return &ovlOp{storeOp: storeOp{kind: "purge", box: h.box}}
	}
	a, b := mk(kindA), mk(kindB)
	if kindA == "rm" && kindB == "rm" && len(all) > 1 {
		b.target = all[1].realID
	}
	// the hook: on A's goroutine, right before the chosen step, start B and wait for it — but not for long
	var hmu sync.Mutex
	var goA, goB int64
	fired := false
	sawRawClosed := false
	doneB := make(chan struct{})
	where := ""
	file.VerifStepHook = func(step, path string) {
		g := ovlGoid()
		hmu.Lock()
		if g == goA && a.seq == 0 {
			seq++
			a.seq = seq
		}
		if goB != 0 && g == goB && b.seq == 0 {
			seq++
			b.seq = seq
		}
		fire := false
		if g == goA && !fired {
			switch trigger {
			case "first":
				fire = true
			case "index-create":
				fire = sawRawClosed && step == "create-tmp"
			case "index-rename":
				fire = sawRawClosed && step == "rename"
			default:
				fire = step == trigger
			}
			if step == "close-raw" {
				sawRawClosed = true
			}
			if fire {
				fired = true
				where = step
			}
		}
		hmu.Unlock()
		if !fire {
			return
		}
		started := make(chan struct{})
		go func() {
			hmu.Lock()
			goB = ovlGoid()
			hmu.Unlock()
			close(started)
			h.do(b)
			close(doneB)
		}()
		<-started
		select {
		case <-doneB:
			hmu.Lock()
			bInside = true
			hmu.Unlock()
		case <-time.After(ovlWindow):
		}
	}
	doneA := make(chan struct{})
	go func() {
		hmu.Lock()
		goA = ovlGoid()
		hmu.Unlock()
		h.do(a)
		close(doneA)
	}()
	stuck := ""
	select {
	case <-doneA:
	case <-time.After(30 * time.Second):
		stuck = "A"
	}
	hmu.Lock()
	didFire := fired
	hmu.Unlock()
	if stuck == "" && didFire {
		select {
		case <-doneB:
		case <-time.After(30 * time.Second):
			stuck = "B"
		}
	}
	file.VerifStepHook = nil
	if stuck != "" {
		c.Fail("store-contract", h.lines(fmt.Sprintf("A = %s, B = %s started from A's %s step", a.describe(h), b.describe(h), trigger)),
			"operation "+stuck+" did not return within 30 s", "")
		return false
	}
	if !didFire {
		// A never reached the chosen step (a removal that found nothing, …): B runs after it
		h.do(b)
		if b.kind == "add" || b.err == nil {
			hmu.Lock()
			if b.seq == 0 {
				seq++
				b.seq = seq
			}
			hmu.Unlock()
		}
	}
	h.ack(a)
	h.ack(b)
	all = append(all, a, b)
	how := "B returned after A (it had to wait for the mailbox lock)"
	if bInside {
		how = "B ran to its end INSIDE that window, while A was between two of its steps"
	}
	if !didFire {
		how = "A never reached that step; B ran after A had returned"
	} else {
		how = fmt.Sprintf("the step hook, on A's goroutine right before A's %q step, started B on another goroutine and waited ≤ %v for it: %s", where, ovlWindow, how)
	}
	h.trace = append(h.trace,
		fmt.Sprintf("A = %s -> %s", a.describe(h), a.outcome()),
		fmt.Sprintf("B = %s -> %s   [same mailbox]", b.describe(h), b.outcome()), how)
	key := fmt.Sprintf("A=%s@%s|B=%s|cap=%d|pre=%d", kindA, trigger, kindB, cap, pre)
	c.Count("c16-overlap|"+key, true)
	c.H("c16-overlap:A=" + kindA + "@" + trigger + ",B=" + kindB)
	if bInside {
		c.H("c16-overlap:B-finished-inside-the-window")
	} else if didFire {
		c.H("c16-overlap:B-waited-for-the-lock")
	}
	for _, o := range []*ovlOp{a, b} {
		if o.err != nil && o.err != storage.ErrNotExist {
			c.Fail("store-contract", h.lines(), fmt.Sprintf("%s failed although no file-system call was refused: %v", o.describe(h), o.err), "")
			return bInside
		}
	}
	if !h.judge("judged when A and B had both returned") {
		return bInside
	}
	h.replay(all, "after A and B")
	// whatever is listed now is announced exactly once when the mailbox is purged
	p := &ovlOp{storeOp: storeOp{kind: "purge", box: h.box}}
	h.do(p)
	seq++
	p.seq = seq
	h.trace = append(h.trace, fmt.Sprintf("then %s -> %s", p.describe(h), p.outcome()))
	if p.err != nil {
		c.Fail("store-contract", h.lines(), "the final PurgeMessages failed: "+p.err.Error(), "")
		return bInside
	}
	if h.judge("judged after the final purge") && h.m != nil {
		l := p.modelLine(h)
		h.mtrace = append(h.mtrace, l)
		ans := h.m.Ask(l)
		f := strings.Fields(ans)
		h.c.Compared(1)
		if len(f) < 3 || f[0] != "res=ok" || f[len(f)-1] != core.HexS(h.box)+"=[]" {
			c.Diverge("c16-overlap-serial", h.lines("the final purge"), "res=ok … "+core.HexS(h.box)+"=[]", ans)
		}
	}
	return bInside
}

// ---------------------------------------------------------------- (2) stress

func ovlStress(c *core.Ctx, m *core.Model, r *rand.Rand, idx int) int {
	cap := []int{2, 3, 5, 0}[idx%4]
	h, cleanup := ovlOpen(c, m, fmt.Sprintf("x%d", idx), cap, fmt.Sprintf("stress%d", idx))
	defer cleanup()
	if h == nil {
		return 0
	}
	const clients = 8
	per := 4 + r.Intn(3)
	var pmu sync.Mutex
	pool := []string{} // ids of acknowledged deliveries, for removals
	var seq int64
	cur := map[int64]*ovlOp{} // goroutine -> its operation in progress
	file.VerifStepHook = func(step, path string) {
		g := ovlGoid()
		pmu.Lock()
		if o := cur[g]; o != nil && o.seq == 0 {
			seq++
			o.seq = seq
		}
		pmu.Unlock()
	}
	plans := make([][]*ovlOp, clients)
	rngs := make([]*rand.Rand, clients)
	for g := range plans {
		rngs[g] = rand.New(rand.NewSource(r.Int63()))
	}
	startCh := make(chan struct{})
	var wg sync.WaitGroup
	for g := 0; g < clients; g++ {
		wg.Add(1)
		go func(g int) {
			defer wg.Done()
			me := ovlGoid()
			rr := rngs[g]
			<-startCh
			for k := 0; k < per; k++ {
				var o *ovlOp
				x := rr.Intn(20)
				pmu.Lock()
				var pick string
				if len(pool) > 0 {
					pick = pool[rr.Intn(len(pool))]
				}
				pmu.Unlock()
				switch {
				case x < 11 || pick == "":
					o = h.newAdd(rr)
				case x < 15:
					o = &ovlOp{storeOp: storeOp{kind: "rm", box: h.box}, target: pick}
				case x < 17:
					o = &ovlOp{storeOp: storeOp{kind: "seen", box: h.box}, target: pick}
				case x < 18:
					o = &ovlOp{storeOp: storeOp{kind: "purge", box: h.box}}
				default:
					o = &ovlOp{storeOp: storeOp{kind: "list", box: h.box}}
				}
				o.who = g
				pmu.Lock()
				cur[me] = o
				pmu.Unlock()
				h.do(o)
				pmu.Lock()
				cur[me] = nil
				if o.kind == "add" && o.err == nil {
					pool = append(pool, o.realID)
				}
				pmu.Unlock()
				plans[g] = append(plans[g], o)
			}
		}(g)
	}
	close(startCh)
	done := make(chan struct{})
	go func() { wg.Wait(); close(done) }()
	select {
	case <-done:
	case <-time.After(60 * time.Second):
		file.VerifStepHook = nil
		c.Fail("store-contract", h.lines(fmt.Sprintf("%d clients, %d operations each, released at the same instant on one mailbox", clients, per)),
			"the clients did not finish within 60 s", "")
		return 0
	}
	file.VerifStepHook = nil
	var all []*ovlOp
	for _, p := range plans {
		all = append(all, p...)
	}
	for _, o := range all {
		h.ack(o)
	}
	ord := append([]*ovlOp{}, all...)
	sort.SliceStable(ord, func(i, j int) bool { return ord[i].seq < ord[j].seq })
	h.trace = append(h.trace, fmt.Sprintf("%d clients released at the same instant, %d operations each; in the order of their first hooked step (— = none reached):", clients, per))
	for _, o := range ord {
		s := "—"
		if o.seq > 0 {
			s = strconv.FormatInt(o.seq, 10)
		}
		h.trace = append(h.trace, fmt.Sprintf("  [%s] client %d: %s -> %s", s, o.who, o.describe(h), o.outcome()))
	}
	c.Count(fmt.Sprintf("c16-overlap-stress|cap=%d|%d", cap, idx), true)
	c.H(fmt.Sprintf("c16-overlap-stress:cap=%d", cap))
	for _, o := range all {
		if o.err != nil && o.err != storage.ErrNotExist {
			c.Fail("store-contract", h.lines(), fmt.Sprintf("client %d: %s failed although no file-system call was refused: %v", o.who, o.describe(h), o.err), "")
			return len(all)
		}
	}
	if h.judge("judged when all clients had returned") {
		h.replay(all, "stress")
	}
	return len(all)
}
