package main

// SYS — the composed REAL system against the composed model (Ibx.Model.Sys, driver mode "sys").
//
//   ONE real stack per scenario: extension.NewHost(), the real memory store (cap 0/2, maxkb 0/1/2) or the real file
//   store (cap 0/2), message.StoreManager, policy.Addressing, smtp.NewServer, pop3.NewServer, msghub.New with a
//   recording hub listener, storage.NewRetentionScanner, and the REST handlers through the real web.Router on an
//   httptest server.  web.Router is a package global (routes can be registered once per process) and the handlers read
//   ONE package-global manager, so the scenarios run in CHILD PROCESSES (this binary re-executed with
//   VERIF_SYS_CHILD=<json>); inside a child the scenarios run one after the other, each swapping its own store, host
//   and address policy into the one StoreManager the router serves.
//
//   A scenario mixes whole SMTP connections (smtpGen / play / modelLine of smtp_common.go), whole POP3 sessions on the
//   same store, REST list / get / source / seen / delete / purge requests under several spellings of the name,
//   retention scans with a chosen cutoff, direct deletes, and "old mail" (AddMessage with a date hours in the past
//   followed by the stored event — a delivery by a manager whose clock read that time).
//
//   T2: after EVERY operation the component's answer (reply stream, POP3 replies, HTTP status + payload, scan events,
//   store outcome) and the events the operation emitted are compared with Model.Sys; after every scenario the whole
//   store and the whole event log.  Ids are compared as per-mailbox delivery ranks, the Received time stamp is masked
//   by a placeholder of the same length (so sizes stay comparable), dates are nanoseconds.
//
//   Implementation-only oracles (the Sys theorems observed on the real stack, never consulting the model): see the
//   `fail(...)` calls — acknowledged mail is stored once per storable recipient and fetchable under every spelling
//   (REST) and through POP3 with the same ids / sizes / bytes; POP3 DELE+QUIT, REST DELETE and purge remove exactly
//   what they say from every interface with exactly one deleted event; a dropped POP3 session removes nothing; a scan
//   removes exactly the expired; the hub listener sees exactly the emitted events, each once, stored before deleted
//   (F-16c tolerated by its predicate); cap, store byte limit and MaxMessageBytes hold after every operation.

import (
	"bufio"
	"bytes"
	"context"
	"encoding/json"
	"fmt"
	"io"
	"log"
	"math/rand"
	"net"
	"net/http"
	"net/http/httptest"
	"net/mail"
	"net/url"
	"os"
	"os/exec"
	"path/filepath"
	"regexp"
	"sort"
	"strconv"
	"strings"
	"sync"
	"time"

	"github.com/inbucket/inbucket/v3/pkg/config"
	"github.com/inbucket/inbucket/v3/pkg/extension"
	"github.com/inbucket/inbucket/v3/pkg/extension/event"
	"github.com/inbucket/inbucket/v3/pkg/message"
	"github.com/inbucket/inbucket/v3/pkg/msghub"
	"github.com/inbucket/inbucket/v3/pkg/policy"
	"github.com/inbucket/inbucket/v3/pkg/rest"
	"github.com/inbucket/inbucket/v3/pkg/rest/model"
	"github.com/inbucket/inbucket/v3/pkg/server/pop3"
	"github.com/inbucket/inbucket/v3/pkg/server/smtp"
	"github.com/inbucket/inbucket/v3/pkg/server/web"
	"github.com/inbucket/inbucket/v3/pkg/storage"
	"github.com/inbucket/inbucket/v3/pkg/storage/file"
	"github.com/inbucket/inbucket/v3/pkg/storage/mem"
	"github.com/inbucket/inbucket/v3/pkg/stringutil"
	"github.com/inbucket/inbucket/v3/pkg/webui"
	"github.com/jhillyerd/enmime/v2"
	"github.com/rs/zerolog"
	zlog "github.com/rs/zerolog/log"

	"verif/harness/internal/core"
)

func init() {
	if cfg := os.Getenv("VERIF_SYS_CHILD"); cfg != "" {
		sysChild(cfg)
		os.Exit(0)
	}
	register("SYS", runSYS)
}

// the Received time stamp is recvdTimeFmt in UTC: always 37 bytes
const sysTS = "Thu, 01 Jan 1970 00:00:00 +0000 (UTC)"
const sysSyncBox = "\x00verif-sync"
const sysWait = 20 * time.Second

type sysChildCfg struct {
	Seed      int64  `json:"seed"`
	Tier      string `json:"tier"`
	Drv       string `json:"drv"`
	Work      string `json:"work"`
	Known     string `json:"known"`
	Out       string `json:"out"`
	Prop      string `json:"prop"`
	Idx       int    `json:"idx"`
	Workers   int    `json:"workers"`
	Scenarios int    `json:"scenarios"`
}

// ---------------------------------------------------------------------------------------------- parent

func runSYS(c *core.Ctx) { sysLeg(c) }

// sysLeg runs the system-level correspondence under whatever property id `c` carries (SYS stand-alone; C01 / C14 when attached).
func sysLeg(c *core.Ctx) { sysLegN(c, 2400, 24000) }

// sysLegN: the same with the number of scenarios of the quick / thorough tier chosen by the caller.
func sysLegN(c *core.Ctx, quick, thorough int) {
	rule := "sys: a scenario = one real stack (store back-end x cap x byte limit x naming x policy) and 8-22 operations (SMTP connections, POP3 sessions, REST requests, retention scans, direct deletes, old mail); " +
		"non-trivial when mail was stored through SMTP AND something was deleted through POP3 or REST AND a scan or an eviction removed something; distinct by the scenario's operation trace"
	if c.Res.Rule == "" {
		c.Res.Rule = rule
	} else {
		c.Res.Rule += " | " + rule
	}
	exe, err := os.Executable()
	if err != nil {
		c.Diverge("sys-child-process", []string{"os.Executable"}, err.Error(), "")
		return
	}
	knownPath := ""
	for i, a := range os.Args {
		if (a == "-known" || a == "--known") && i+1 < len(os.Args) {
			knownPath = os.Args[i+1]
		}
		if strings.HasPrefix(a, "-known=") || strings.HasPrefix(a, "--known=") {
			knownPath = a[strings.Index(a, "=")+1:]
		}
	}
	workers := 12
	total := c.Scale(quick, thorough)
	if v := os.Getenv("VERIF_SYS_SCENARIOS"); v != "" {
		if n, err := strconv.Atoi(v); err == nil && n > 0 {
			total = n
		}
	}
	cfgs := make([]sysChildCfg, workers)
	for i := range cfgs {
		cfgs[i] = sysChildCfg{Seed: c.Seed, Tier: c.Tier, Drv: c.DrvPath, Work: filepath.Join(c.Workdir, fmt.Sprintf("sys-%d", i)), Known: knownPath,
			Out: filepath.Join(c.Workdir, fmt.Sprintf("sys-%d.json", i)), Prop: c.Prop, Idx: i, Workers: workers, Scenarios: total}
	}
	results := make([]*core.Result, workers)
	errs := make([]string, workers)
	core.Parallel(workers, workers, func(i int) {
		k := cfgs[i]
		os.MkdirAll(k.Work, 0o755)
		js, _ := json.Marshal(k)
		ctx, cancel := context.WithTimeout(context.Background(), time.Duration(c.Scale(300, 1200))*time.Second)
		defer cancel()
		cmd := exec.CommandContext(ctx, exe)
		cmd.Env = append(os.Environ(), "VERIF_SYS_CHILD="+string(js), "TZ=UTC")
		var eb bytes.Buffer
		cmd.Stderr = &eb
		cmd.Stdout = &eb
		if err := cmd.Run(); err != nil {
			errs[i] = fmt.Sprintf("child %d: %v: %s", i, err, c14Tail(eb.String(), 1500))
			return
		}
		b, err := os.ReadFile(k.Out)
		if err != nil {
			errs[i] = fmt.Sprintf("child %d wrote no result: %v: %s", i, err, c14Tail(eb.String(), 1500))
			return
		}
		var r core.Result
		if err := json.Unmarshal(b, &r); err != nil {
			errs[i] = fmt.Sprintf("child %d result unreadable: %v", i, err)
			return
		}
		results[i] = &r
	})
	seenKnown := map[string]bool{}
	for _, kh := range c.Res.KnownHits {
		seenKnown[kh.ID] = true
	}
	for i, r := range results {
		if errs[i] != "" {
			c.Diverge("sys-child-process", []string{fmt.Sprintf("child %d of %d", i, workers)}, errs[i], "a result file")
			continue
		}
		c.Res.Evaluations += r.Evaluations
		c.Res.Distinct += r.Distinct
		c.Res.Compared += r.Compared
		for k, v := range r.Hist {
			c.Res.Hist[k] += v
		}
		for _, s := range r.Samples {
			if len(c.Res.Samples) < 12 && i%4 == 0 {
				c.Res.Samples = append(c.Res.Samples, s)
			}
		}
		for _, d := range r.Divergences {
			if !c.InScope(d.Corr) {
				continue
			}
			if len(c.Res.Divergences) < 20 {
				c.Res.Divergences = append(c.Res.Divergences, d)
			}
		}
		for _, f := range r.Failures {
			if !c.InScope(f.Oracle) {
				continue
			}
			cnt := 0
			for _, g := range c.Res.Failures {
				if g.Oracle == f.Oracle && g.Known == f.Known {
					cnt++
				}
			}
			if cnt < 5 {
				c.Res.Failures = append(c.Res.Failures, f)
			}
		}
		for _, kh := range r.KnownHits {
			if !seenKnown[kh.ID] {
				seenKnown[kh.ID] = true
				c.Res.KnownHits = append(c.Res.KnownHits, kh)
			}
		}
		for _, nt := range r.Notes {
			c.Note("sys child %d: %s", i, nt)
		}
	}
	c.Note("sys: %d scenarios in %d child processes, each around the real web.Router, one real stack per scenario", total, workers)
}

// ---------------------------------------------------------------------------------------------- recorders

type sysEv struct {
	kind byte // 's' | 'd'
	box  string
	id   string
	subj string
	date time.Time
	size int64
}

type sysRecorder struct {
	mu     sync.Mutex
	evs    []sysEv
	synced map[string]bool
}

func (r *sysRecorder) stored(m event.MessageMetadata) {
	r.mu.Lock()
	r.evs = append(r.evs, sysEv{'s', m.Mailbox, m.ID, m.Subject, m.Date, m.Size})
	r.mu.Unlock()
}

func (r *sysRecorder) deleted(box, id string, size int64) {
	r.mu.Lock()
	if box == sysSyncBox {
		r.synced[id] = true
	} else {
		r.evs = append(r.evs, sysEv{'d', box, id, "", time.Time{}, size})
	}
	r.mu.Unlock()
}

func (r *sysRecorder) isSynced(tok string) bool {
	r.mu.Lock()
	defer r.mu.Unlock()
	return r.synced[tok]
}

func (r *sysRecorder) snapshot() []sysEv {
	r.mu.Lock()
	defer r.mu.Unlock()
	return append([]sysEv{}, r.evs...)
}

// sysHubListener is a msghub.Listener: what a monitor attached to the hub is told
type sysHubListener struct{ rec *sysRecorder }

func (l sysHubListener) Receive(m event.MessageMetadata) error { l.rec.stored(m); return nil }
func (l sysHubListener) Delete(mailbox, id string) error      { l.rec.deleted(mailbox, id, 0); return nil }

// sysScanStore notes when VisitMailboxes is entered (DoScan has computed its cutoff before that).
type sysScanStore struct {
	storage.Store
	tVisit time.Time
}

func (w *sysScanStore) VisitMailboxes(f func([]storage.Message) bool) error {
	if w.tVisit.IsZero() {
		w.tVisit = time.Now()
	}
	return w.Store.VisitMailboxes(f)
}

// ---------------------------------------------------------------------------------------------- child

type sysEnv struct {
	c    *core.Ctx
	k    sysChildCfg
	m    *core.Model
	mgr  *message.StoreManager
	srv  *httptest.Server
	raw  *http.Client
	slog *c14LockedBuf
	// transports (added for the assembly leg, asm.go; zero values = the in-process transports of SYS)
	baseURL   string                                                       // scheme://host:port[/base-path] in front of /api/…
	smtpPlay  func(lines [][]byte, cut int, awaitLast bool) dialogueResult // nil: smtpStack.play on a net.Pipe
	popDial   func() (net.Conn, error)                                     // nil: a net.Pipe handed to VerifStartSession
	rhost     string                                                       // the peer name in the Received header ("" = "pipe")
	domain    string                                                       // SMTP greeting domain ("" = "inbucket.test")
	afterSMTP func(d smtpDialogue, cut int, res *dialogueResult)           // extra implementation-only oracles on one played connection (nil: none)
	// per scenario
	s *sysScn
}

type sysLive struct {
	box, id string
	rank    int
	seen    bool
	size    int64
	date    time.Time
	subj    string
	src     []byte
}

type sysScn struct {
	idx                  int
	naming, backend      string
	cap, maxkb, maxBytes int
	env                  *smtpEnv
	stack                *smtpStack
	host                 *extension.Host
	store                storage.Store
	pop                  *pop3.Server
	hub                  *msghub.Hub
	rec, hubRec          *sysRecorder
	syncN                int
	consumed             int // events of rec already attributed to an operation
	modelLogN            int
	ranks                map[string]map[string]int
	ids                  map[string][]string // box -> real ids, by rank-1
	boxes                []string            // mailboxes that received mail, in order of first delivery
	addrOf               map[string]string   // box -> an address that was acknowledged for it
	trace                []string
	bad                  bool
	flags                map[string]bool
	sessions             int
}

func sysChild(cfgJSON string) {
	zerolog.SetGlobalLevel(zerolog.Disabled)
	zlog.Logger = zerolog.Nop()
	pop3.VerifQuietLogs()
	var k sysChildCfg
	if err := json.Unmarshal([]byte(cfgJSON), &k); err != nil {
		fmt.Fprintln(os.Stderr, "bad child config:", err)
		os.Exit(2)
	}
	prop := k.Prop
	if prop == "" {
		prop = "SYS"
	}
	c := core.NewCtx(prop, k.Tier, k.Seed, k.Drv, k.Work)
	if k.Known != "" {
		// the open findings this leg can meet belong to other properties
		for _, p := range []string{"SYS", "C16", "C04", "C14", "C01"} {
			for id, f := range core.LoadKnown(k.Known, p) {
				c.Known[id] = f
			}
		}
	}
	e := &sysEnv{c: c, k: k}
	e.setup()
	defer e.srv.Close()
	e.m = c.NewModel("sys")
	defer e.m.Close()
	if k.Idx == 0 {
		e.replayF16c()
	}
	for n := k.Idx; n < k.Scenarios; n += k.Workers {
		e.scenario(n)
	}
	c.Finish(k.Out)
}

func (e *sysEnv) setup() {
	conf := &config.Root{Web: config.Web{UIDir: filepath.Join(e.k.Work, "no-ui")}}
	e.mgr = &message.StoreManager{}
	// exactly the wiring of server.FullAssembly (no base path)
	prefix := stringutil.MakePathPrefixer("")
	webui.SetupRoutes(web.Router.PathPrefix(prefix("/serve/")).Subrouter())
	rest.SetupRoutes(web.Router.PathPrefix(prefix("/api/")).Subrouter())
	web.NewServer(conf, e.mgr, &msghub.Hub{})
	e.slog = &c14LockedBuf{}
	e.srv = httptest.NewUnstartedServer(web.Router)
	e.srv.Config.ErrorLog = log.New(e.slog, "", 0)
	e.srv.Start()
	e.baseURL = e.srv.URL
	e.raw = &http.Client{Timeout: sysWait, CheckRedirect: func(*http.Request, []*http.Request) error { return http.ErrUseLastResponse }}
}

// ---------------------------------------------------------------------------------------------- scenario plumbing

func (e *sysEnv) line(format string, a ...interface{}) {
	e.s.trace = append(e.s.trace, fmt.Sprintf(format, a...))
}

func (e *sysEnv) caseLines() []string {
	s := e.s
	t := append([]string{fmt.Sprintf("scenario %d (VERIF_SEED=%d): backend=%s cap=%d maxkb=%d naming=%s maxbytes=%d maxrcpt=%d policy=%+v", s.idx, e.k.Seed, s.backend, s.cap, s.maxkb, s.naming, s.maxBytes, s.env.maxRcpt, s.env.pol)}, s.trace...)
	if len(t) > 90 {
		t = append(t[:10], append([]string{"…"}, t[len(t)-78:]...)...)
	}
	return t
}

func (e *sysEnv) diverge(corr, impl, mod string) {
	e.s.bad = true
	e.c.Diverge(corr, e.caseLines(), c14Trunc(impl, 1500), c14Trunc(mod, 1500))
}

func (e *sysEnv) fail(oracle, detail, known string) {
	e.c.Fail(oracle, e.caseLines(), detail, known)
}

func (e *sysEnv) ask(line string) string {
	ans := e.m.Ask(line)
	e.line("   model: %s -> %s", c14Trunc(line, 300), c14Trunc(ans, 300))
	return ans
}

func sysMask(src []byte) []byte { return tsRE.ReplaceAll(src, []byte("${1}"+sysTS+"\r\n")) }

func (s *sysScn) rank(box, id string) int {
	if r, ok := s.ranks[box][id]; ok {
		return r
	}
	return -1
}

func sysEvTok(s *sysScn, ev sysEv) string {
	return fmt.Sprintf("%c:%s/%d", ev.kind, core.HexS(ev.box), s.rank(ev.box, ev.id))
}

// settle waits until everything emitted so far has reached both recorders, gives every new stored id its rank and
// returns the events that arrived since the last call.
func (e *sysEnv) settle() []sysEv {
	s := e.s
	s.syncN++
	tok := strconv.Itoa(s.syncN)
	s.host.Events.AfterMessageDeleted.Emit(&event.MessageMetadata{Mailbox: sysSyncBox, ID: tok})
	deadline := time.Now().Add(sysWait)
	for !(s.rec.isSynced(tok) && s.hubRec.isSynced(tok)) {
		if time.Now().After(deadline) {
			e.fail("events-are-delivered", fmt.Sprintf("a deleted event emitted %v ago has not reached the extension listener / the hub listener (direct=%v hub=%v)", sysWait, s.rec.isSynced(tok), s.hubRec.isSynced(tok)), "")
			s.bad = true
			break
		}
		time.Sleep(50 * time.Microsecond)
	}
	all := s.rec.snapshot()
	seg := all[s.consumed:]
	s.consumed = len(all)
	for _, ev := range seg {
		if ev.kind == 's' {
			if s.ranks[ev.box] == nil {
				s.ranks[ev.box] = map[string]int{}
				s.boxes = append(s.boxes, ev.box)
			}
			if _, dup := s.ranks[ev.box][ev.id]; dup {
				e.fail("id-issued-once", fmt.Sprintf("mailbox %q: the id %s was announced as stored twice", ev.box, ev.id), "")
				continue
			}
			s.ids[ev.box] = append(s.ids[ev.box], ev.id)
			s.ranks[ev.box][ev.id] = len(s.ids[ev.box])
		}
	}
	return seg
}

// compareEvents: the events one operation emitted against the model's log since the operation began.
func (e *sysEnv) compareEvents(what string, seg []sysEv, ordered bool) []string {
	s := e.s
	got := make([]string, len(seg))
	for i, ev := range seg {
		got[i] = sysEvTok(s, ev)
	}
	ans := e.m.Ask(fmt.Sprintf("log from=%d", s.modelLogN))
	var want []string
	n := -1
	for _, t := range strings.Split(ans, " ") {
		if strings.HasPrefix(t, "n=") {
			n, _ = strconv.Atoi(t[2:])
		}
		if strings.HasPrefix(t, "ev=") && len(t) > 3 {
			want = strings.Split(t[3:], ",")
		}
	}
	if n < 0 {
		e.diverge("sys-driver", "log", ans)
		return want
	}
	s.modelLogN = n
	e.c.Compared(1)
	g, w := got, want
	if !ordered {
		g, w = sortedCopy(got), sortedCopy(want)
	}
	if strings.Join(g, ",") != strings.Join(w, ",") {
		e.line("events of %s: real %v model %v", what, got, want)
		e.diverge("sys-events", strings.Join(got, ","), strings.Join(want, ","))
	}
	return want
}

func (e *sysEnv) liveAll() ([]sysLive, error) {
	s := e.s
	var res []sysLive
	err := s.store.VisitMailboxes(func(ms []storage.Message) bool {
		for _, m := range ms {
			src := []byte("SOURCE-ERROR")
			if r, err := m.Source(); err == nil {
				src, _ = io.ReadAll(r)
				r.Close()
			}
			res = append(res, sysLive{box: m.Mailbox(), id: m.ID(), rank: s.rank(m.Mailbox(), m.ID()), seen: m.Seen(), size: m.Size(), date: m.Date(), subj: m.Subject(), src: src})
		}
		return true
	})
	return res, err
}

func sysEncMsg(s *sysScn, m storage.Message) string {
	src := []byte("SOURCE-ERROR")
	if r, err := m.Source(); err == nil {
		src, _ = io.ReadAll(r)
		r.Close()
	}
	from := ""
	if m.From() != nil {
		from = m.From().Address
	}
	tos := []string{}
	for _, t := range m.To() {
		tos = append(tos, core.HexS(t.Address))
	}
	seen := 0
	if m.Seen() {
		seen = 1
	}
	return fmt.Sprintf("%s/%d/%d/%d/%s/%s/%s/%d/%s", core.HexS(m.Mailbox()), s.rank(m.Mailbox(), m.ID()), seen, m.Size(), core.HexS(from),
		strings.Join(tos, ","), core.HexS(m.Subject()), m.Date().UnixNano(), core.Hex(sysMask(src)))
}

func (e *sysEnv) dump() string {
	s := e.s
	boxes := []string{}
	err := s.store.VisitMailboxes(func(ms []storage.Message) bool {
		if len(ms) > 0 {
			p := make([]string, len(ms))
			for i, m := range ms {
				p[i] = sysEncMsg(s, m)
			}
			boxes = append(boxes, "["+strings.Join(p, "|")+"]")
		}
		return true
	})
	if err != nil {
		return "visit-error:" + err.Error()
	}
	sort.Slice(boxes, func(i, j int) bool { return boxKey(boxes[i]) < boxKey(boxes[j]) })
	return "boxes:" + strings.Join(boxes, "&")
}

// bounds: cap, store byte limit, MaxMessageBytes — after every operation, implementation only
func (e *sysEnv) bounds(after string) {
	s := e.s
	live, err := e.liveAll()
	if err != nil {
		e.fail("visit-works", "VisitMailboxes after "+after+": "+err.Error(), "")
		return
	}
	per := map[string]int{}
	total := int64(0)
	for _, m := range live {
		per[m.box]++
		total += m.size
		if int64(len(m.src)) != m.size {
			e.fail("size-is-length", fmt.Sprintf("after %s: %q/%s reports size %d, its source has %d bytes", after, m.box, m.id, m.size, len(m.src)), "")
		}
		if strings.HasPrefix(m.subj, "old-") {
			continue
		}
		rest := m.src
		for k := 0; k < 3; k++ {
			if j := bytes.Index(rest, []byte("\r\n")); j >= 0 {
				rest = rest[j+2:]
			}
		}
		if len(rest) > s.maxBytes {
			e.fail("no-oversize-stored", fmt.Sprintf("after %s: mailbox %q holds a message whose data part is %d bytes with MaxMessageBytes %d", after, m.box, len(rest), s.maxBytes), "")
		}
	}
	for b, n := range per {
		if s.cap > 0 && n > s.cap {
			e.fail("cap-bound", fmt.Sprintf("after %s: mailbox %q lists %d messages with cap %d", after, b, n, s.cap), "")
		}
	}
	if s.maxkb > 0 && total > int64(s.maxkb)*1024 {
		e.fail("store-size-bound", fmt.Sprintf("after %s: the memory store holds %d bytes with maxkb=%d", after, total, s.maxkb), "")
	}
}

// ---------------------------------------------------------------------------------------------- HTTP

type sysResp struct {
	status int
	body   []byte
	err    error
}

func (e *sysEnv) http(method, name, id, suffix, body string) sysResp {
	path := "/api/v1/mailbox/" + url.PathEscape(name)
	if id != "" {
		path += "/" + id + suffix
	}
	var rd io.Reader
	switch body {
	case "true":
		rd = strings.NewReader(`{"seen":true}`)
	case "false":
		rd = strings.NewReader(`{"seen":false}`)
	}
	req, err := http.NewRequest(method, e.baseURL+path, rd)
	if err != nil {
		return sysResp{err: err}
	}
	resp, err := e.raw.Do(req)
	if err != nil {
		e.fail("no-dropped-connection", fmt.Sprintf("%s %s: transport error %v; server log: %s", method, path, err, c14Trunc(e.slog.take(), 300)), "")
		return sysResp{err: err}
	}
	b, _ := io.ReadAll(resp.Body)
	resp.Body.Close()
	if l := e.slog.take(); l != "" {
		e.fail("no-handler-panic", fmt.Sprintf("%s %s: server log: %s", method, path, c14Trunc(l, 400)), "")
	}
	return sysResp{status: resp.StatusCode, body: b}
}

// metaOfJSON: the model's encMeta of a JSON header, the address fields taken from the store's message when the JSON
// renders exactly that message (stringutil.StringAddress of its addresses), flagged otherwise.
func (e *sysEnv) metaOfJSON(box, id, from string, to []string, subj string, date time.Time, size int64, seen bool) string {
	s := e.s
	sn := 0
	if seen {
		sn = 1
	}
	fromA, tos := "json:"+from, []string{}
	if m, err := s.store.GetMessage(box, id); err == nil && m != nil {
		if stringutil.StringAddress(m.From()) == from {
			fromA = ""
			if m.From() != nil {
				fromA = m.From().Address
			}
		}
		want := stringutil.StringAddressList(m.To())
		if strings.Join(want, "\x00") == strings.Join(to, "\x00") {
			for _, t := range m.To() {
				tos = append(tos, t.Address)
			}
		} else {
			tos = append([]string{"json"}, to...)
		}
	} else {
		tos = append([]string{"json"}, to...)
	}
	return fmt.Sprintf("%d/%d/%d/%s/%s/%s/%d", s.rank(box, id), sn, size, core.HexS(fromA), core.HexList(tos), core.HexS(subj), date.UnixNano())
}

func (e *sysEnv) decodeList(body []byte) (string, []*model.JSONMessageHeaderV1) {
	var hs []*model.JSONMessageHeaderV1
	if err := json.Unmarshal(body, &hs); err != nil {
		return "undecodable:" + err.Error(), nil
	}
	box := "*"
	p := []string{}
	for _, h := range hs {
		box = core.HexS(h.Mailbox)
		if h.PosixMillis != h.Date.UnixNano()/1000000 {
			return "posix-millis-mismatch", hs
		}
		p = append(p, e.metaOfJSON(h.Mailbox, h.ID, h.From, h.To, h.Subject, h.Date, h.Size, h.Seen))
	}
	return "list:" + box + ":[" + strings.Join(p, "|") + "]", hs
}

func (e *sysEnv) decodePayload(route string, body []byte) string {
	switch route {
	case "MailboxListV1":
		s, _ := e.decodeList(body)
		return s
	case "MailboxShowV1":
		var m model.JSONMessageV1
		if err := json.Unmarshal(body, &m); err != nil {
			return "undecodable:" + err.Error()
		}
		return "msg:" + core.HexS(m.Mailbox) + ":" + e.metaOfJSON(m.Mailbox, m.ID, m.From, m.To, m.Subject, m.Date, m.Size, m.Seen)
	case "MailboxSourceV1":
		return "src:" + core.Hex(sysMask(body))
	case "MailboxPurgeV1", "MailboxMarkSeenV1", "MailboxDeleteV1":
		var s string
		if err := json.Unmarshal(body, &s); err != nil || s != "OK" {
			return "not-OK:" + c14Trunc(string(body), 40)
		}
		return "OK"
	}
	return "?"
}

func (e *sysEnv) idTok(name, id string) string {
	if id == "" {
		return "junk"
	}
	if id == "latest" {
		return "latest"
	}
	box, err := e.s.stack.ap.ExtractMailbox(name)
	if err != nil {
		return "junk"
	}
	if r, ok := e.s.ranks[box][id]; ok {
		return fmt.Sprintf("n%d", r)
	}
	return "junk"
}

// restOp: one REST request as a system operation
func (e *sysEnv) restOp(route, method, name, id, suffix, body string) {
	s := e.s
	e.line("%s /api/v1/mailbox/%s%s%s   (name %q, body %s) [%s]", method, url.PathEscape(name), map[bool]string{true: "/" + id, false: ""}[id != ""], suffix, name, body, route)
	box, berr := s.stack.ap.ExtractMailbox(name)
	var before []storage.Message
	if berr == nil {
		before, _ = s.store.GetMessages(box)
	}
	rp := e.http(method, name, id, suffix, body)
	if rp.err != nil {
		s.bad = true
		return
	}
	e.c.H("op:rest:" + route)
	e.c.H(fmt.Sprintf("rest-status:%d", rp.status))
	seg := e.settle()
	mb := body
	if mb == "" {
		mb = "absent"
	}
	ans := e.ask(fmt.Sprintf("rest %s %s %s body=%s num=bad natt=0 %s", route, core.HexS(name), e.idTok(name, id), mb, ipTable(name)))
	sp := strings.SplitN(ans, " ", 2)
	if len(sp) != 2 {
		e.diverge("sys-driver", "rest", ans)
		return
	}
	// ---- implementation-only: the status says whether the mailbox the NAME denotes holds the addressed message
	if berr == nil && id != "" && !(route == "MailboxMarkSeenV1" && body != "true") {
		live := false
		for _, m := range before {
			if m.ID() == id {
				live = true
			}
		}
		if id == "latest" && (route == "MailboxShowV1" || route == "MailboxSourceV1") {
			live = len(before) > 0
		}
		switch {
		case live && rp.status == 404:
			e.fail("held-message-is-found", fmt.Sprintf("%s asked as %q (mailbox %q) for id %s, which the mailbox holds: answered 404", route, name, box, id), "")
		case !live && rp.status == 200:
			e.fail("missing-is-404", fmt.Sprintf("%s asked as %q (mailbox %q) for id %s, which the mailbox does not hold: answered 200", route, name, box, id), "")
		}
	}
	// ---- implementation-only: the request did what its name says, on every interface
	if berr == nil && rp.status == 200 {
		switch route {
		case "MailboxDeleteV1":
			s.flags["deleted"] = true
			e.goneEverywhere("REST DELETE", box, []string{id}, seg)
		case "MailboxPurgeV1":
			ids := []string{}
			for _, m := range before {
				ids = append(ids, m.ID())
			}
			if len(ids) > 0 {
				s.flags["deleted"] = true
			}
			e.goneEverywhere("REST purge", box, ids, seg)
		default:
			if len(seg) != 0 {
				e.fail("reads-emit-nothing", fmt.Sprintf("%s %q emitted %d message events", route, name, len(seg)), "")
			}
		}
	} else if len(seg) != 0 {
		e.fail("failed-request-changes-nothing", fmt.Sprintf("%s %q answered %d and emitted %d message events", route, name, rp.status, len(seg)), "")
	}
	if berr == nil && (rp.status != 200 || (route != "MailboxDeleteV1" && route != "MailboxPurgeV1")) {
		after, _ := s.store.GetMessages(box)
		if sysIDs(after) != sysIDs(before) {
			e.fail("request-changes-only-what-it-says", fmt.Sprintf("%s %q (status %d): mailbox %q went from [%s] to [%s]", route, name, rp.status, box, sysIDs(before), sysIDs(after)), "")
		}
	}
	// ---- model
	e.c.Compared(1)
	if sp[0] != strconv.Itoa(rp.status) {
		if route == "MailboxShowV1" && rp.status == 500 && sp[0] == "200" && berr == nil {
			// outside the model's assumption "stored messages are readable MIME": confirm it independently
			rid := id
			if id == "latest" && len(before) > 0 {
				rid = before[len(before)-1].ID()
			}
			if m, err := s.store.GetMessage(box, rid); err == nil && m != nil {
				if r, err := m.Source(); err == nil {
					_, perr := enmime.ReadEnvelope(r)
					r.Close()
					if perr != nil {
						e.c.H("rest-show:enmime-rejects-the-stored-message(assumption, not compared)")
						e.compareEvents(route, seg, true)
						return
					}
				}
			}
		}
		e.diverge("sys-rest-status", fmt.Sprintf("%d %s", rp.status, c14Trunc(string(rp.body), 160)), ans)
		return
	}
	if rp.status == 200 {
		got := e.decodePayload(route, rp.body)
		want := sp[1]
		if strings.HasPrefix(got, "list:*:") {
			want = regexp.MustCompile(`^list:[0-9a-f-]+:`).ReplaceAllString(want, "list:*:")
		}
		e.c.Compared(1)
		if got != want {
			e.diverge("sys-rest-payload", got, want)
			return
		}
	}
	e.compareEvents(route, seg, route != "MailboxPurgeV1")
}

func sysIDs(ms []storage.Message) string {
	p := make([]string, len(ms))
	for i, m := range ms {
		p[i] = m.ID()
	}
	return strings.Join(p, ",")
}

// goneEverywhere: after a removal that was acknowledged, the ids are gone from the store, from REST (list and get),
// from POP3, and each was announced deleted exactly once by this operation (nothing else was announced).
func (e *sysEnv) goneEverywhere(what, box string, ids []string, seg []sysEv) {
	s := e.s
	want := map[string]int{}
	for _, id := range ids {
		want[id] = 0
	}
	for _, ev := range seg {
		if ev.kind != 'd' || ev.box != box {
			e.fail("removal-emits-only-its-deletes", fmt.Sprintf("%s on %q emitted %c(%q/%s)", what, box, ev.kind, ev.box, ev.id), "")
			continue
		}
		if _, ok := want[ev.id]; !ok {
			e.fail("removal-emits-only-its-deletes", fmt.Sprintf("%s on %q emitted a deleted event for %s, which it did not remove", what, box, ev.id), "")
			continue
		}
		want[ev.id]++
	}
	for id, n := range want {
		if n != 1 {
			e.fail("one-deleted-event-per-removal", fmt.Sprintf("%s removed %q/%s: %d deleted events", what, box, id, n), "")
		}
		if m, err := s.store.GetMessage(box, id); err == nil && m != nil {
			e.fail("removed-is-gone", fmt.Sprintf("%s removed %q/%s but the store still returns it", what, box, id), "")
		}
	}
	if len(ids) == 0 || !sysRestSafe(box) {
		return
	}
	if cb, err := s.stack.ap.ExtractMailbox(box); err != nil || cb != box {
		e.c.H("gone:mailbox-name-not-canonical(REST not asked)") // e.g. POP3 USER with a re-cased name (F-04d)
		return
	}
	rp := e.http("GET", box, "", "", "")
	if rp.err == nil && rp.status == 200 {
		_, hs := e.decodeList(rp.body)
		for _, h := range hs {
			if _, gone := want[h.ID]; gone && h.Mailbox == box {
				e.fail("removed-is-gone", fmt.Sprintf("%s removed %q/%s but REST still lists it", what, box, h.ID), "")
			}
		}
	}
	rp = e.http("GET", box, ids[0], "", "")
	if rp.err == nil && rp.status != 404 {
		e.fail("removed-is-gone", fmt.Sprintf("%s removed %q/%s but GET answers %d", what, box, ids[0], rp.status), "")
	}
	if sysPopSafe(box) {
		if pl, ok := e.popListing(box); ok {
			for _, x := range pl {
				if _, gone := want[x[0]]; gone {
					e.fail("removed-is-gone", fmt.Sprintf("%s removed %q/%s but POP3 UIDL still lists it", what, box, x[0]), "")
				}
			}
		}
	}
}

func sysRestSafe(name string) bool {
	return name != "" && name != "." && name != ".." && !strings.Contains(name, "/") // '/' : open finding F-14c
}

func sysPopSafe(name string) bool {
	if name == "" {
		return false
	}
	for _, c := range []byte(name) {
		if c <= ' ' || c >= 127 {
			return false
		}
	}
	return true
}

// ---------------------------------------------------------------------------------------------- POP3

type sysPopRun struct {
	replies []*popReply // greeting first
	err     error
	eof     bool // the server closed after the last reply
	panicv  string
}

// popRun plays the commands in lock step on a fresh real session; quit=false: the client drops the connection after the last reply.
func (e *sysEnv) popRun(cmds []popCmd, drop bool) sysPopRun {
	s := e.s
	s.sessions++
	var res sysPopRun
	var cconn net.Conn
	var vs *pop3.VerifSession
	if e.popDial != nil {
		var err error
		if cconn, err = e.popDial(); err != nil {
			res.err = fmt.Errorf("connecting: %v", err)
			return res
		}
	} else {
		var sconn net.Conn
		sconn, cconn = net.Pipe()
		vs = s.pop.VerifStartSession(s.sessions, sconn)
	}
	defer cconn.Close()
	br := bufio.NewReaderSize(cconn, 1<<16)
	g, err := popReadReply(cconn, br, false)
	if err != nil {
		res.err = fmt.Errorf("greeting: %v", err)
		return res
	}
	res.replies = append(res.replies, g)
	ended := false
	for _, cmd := range cmds {
		cconn.SetWriteDeadline(time.Now().Add(sysWait))
		if _, err := io.WriteString(cconn, cmd.line); err != nil {
			res.err = fmt.Errorf("writing %q: %v", cmd.line, err)
			break
		}
		rp, err := popReadReply(cconn, br, cmd.multi)
		if err != nil {
			res.err = fmt.Errorf("reply to %q: %v", cmd.line, err)
			break
		}
		res.replies = append(res.replies, rp)
		if cmd.verb == "QUIT" && rp.ok {
			ended = true
			break
		}
	}
	if res.err == nil && ended {
		cconn.SetReadDeadline(time.Now().Add(sysWait))
		if _, err := br.ReadByte(); err == io.EOF {
			res.eof = true
		}
	}
	if !ended || drop {
		cconn.Close()
	}
	if vs == nil { // a real TCP connection: the server closing it (eof) is all a client can see
		return res
	}
	if !popWait(vs.Done, sysWait) {
		res.err = fmt.Errorf("the session goroutine is still running %v after the client left", sysWait)
	}
	res.panicv = vs.Panic
	return res
}

// popListing: a read-only session on `box`: UIDL + LIST, returns (id, size) per message
func (e *sysEnv) popListing(box string) ([][2]string, bool) {
	run := e.popRun([]popCmd{popMk("USER", box), popMk("PASS", "x"), popMk("UIDL"), popMk("LIST"), popMk("QUIT")}, false)
	if run.err != nil || run.panicv != "" || len(run.replies) != 6 {
		e.fail("pop3-session-works", fmt.Sprintf("read-only POP3 session on %q: %v %s (%d replies)", box, run.err, c14Trunc(run.panicv, 300), len(run.replies)), "")
		return nil, false
	}
	u, ok1 := popSplit2(run.replies[3].lines)
	l, ok2 := popSplit2(run.replies[4].lines)
	if !ok1 || !ok2 || len(u) != len(l) {
		e.fail("pop3-session-works", fmt.Sprintf("POP3 UIDL / LIST of %q: %q / %q", box, run.replies[3].lines, run.replies[4].lines), "")
		return nil, false
	}
	res := make([][2]string, len(u))
	for i := range u {
		res[i] = [2]string{u[i][1], l[i][1]}
	}
	return res, true
}

// popCross (implementation only): POP3 for the canonical name lists exactly the ids / sizes REST lists, and RETR returns
// the bytes REST's source returns, up to line ends.
func (e *sysEnv) popCross(box string) {
	if !sysPopSafe(box) || !sysRestSafe(box) {
		e.c.H("cross:name-not-expressible(skipped)")
		return
	}
	rp := e.http("GET", box, "", "", "")
	if rp.err != nil || rp.status != 200 {
		e.fail("mailbox-name-is-a-fixed-point", fmt.Sprintf("REST list under the canonical name %q answers %d", box, rp.status), "")
		return
	}
	_, hs := e.decodeList(rp.body)
	cmds := []popCmd{popMk("USER", box), popMk("PASS", "x"), popMk("UIDL"), popMk("LIST")}
	nret := len(hs)
	if nret > 3 {
		nret = 3
	}
	for i := 0; i < nret; i++ {
		cmds = append(cmds, popMk("RETR", strconv.Itoa(i+1)))
	}
	cmds = append(cmds, popMk("QUIT"))
	run := e.popRun(cmds, false)
	if run.err != nil || run.panicv != "" || len(run.replies) != len(cmds)+1 {
		e.fail("pop3-session-works", fmt.Sprintf("POP3 session on %q: %v %s", box, run.err, c14Trunc(run.panicv, 300)), "")
		return
	}
	e.c.H("cross:pop3-vs-rest")
	u, _ := popSplit2(run.replies[3].lines)
	l, _ := popSplit2(run.replies[4].lines)
	wantU, wantL := []string{}, []string{}
	for _, h := range hs {
		wantU = append(wantU, h.ID)
		wantL = append(wantL, strconv.FormatInt(h.Size, 10))
	}
	gotU, gotL := []string{}, []string{}
	for _, x := range u {
		gotU = append(gotU, x[1])
	}
	for _, x := range l {
		gotL = append(gotL, x[1])
	}
	if strings.Join(gotU, ",") != strings.Join(wantU, ",") || strings.Join(gotL, ",") != strings.Join(wantL, ",") {
		e.fail("pop3-lists-what-rest-lists", fmt.Sprintf("mailbox %q: POP3 ids [%s] sizes [%s]; REST ids [%s] sizes [%s]", box, strings.Join(gotU, ","), strings.Join(gotL, ","), strings.Join(wantU, ","), strings.Join(wantL, ",")), "")
		return
	}
	for i := 0; i < nret; i++ {
		sr := e.http("GET", box, hs[i].ID, "/source", "")
		if sr.err != nil || sr.status != 200 {
			e.fail("listed-is-fetchable", fmt.Sprintf("REST lists %q/%s but its source answers %d", box, hs[i].ID, sr.status), "")
			continue
		}
		got, ok := popUnstuff(run.replies[5+i].lines)
		want := popRefLines(sr.body)
		if !run.replies[5+i].ok || !ok || strings.Join(got, "\n") != strings.Join(want, "\n") {
			e.fail("pop3-retr-equals-rest-source", fmt.Sprintf("mailbox %q message %s: RETR returned %d lines, REST source has %d lines (or they differ)", box, hs[i].ID, len(got), len(want)), "")
		}
		if int64(len(sr.body)) != hs[i].Size {
			e.fail("size-is-length", fmt.Sprintf("mailbox %q message %s: listed size %d, source %d bytes", box, hs[i].ID, hs[i].Size, len(sr.body)), "")
		}
	}
}

// sysPopRewrite: ids → ranks in UIDL replies, time stamp masked in RETR / TOP
func (e *sysEnv) popRewrite(user string, cmd popCmd, rp *popReply) *popReply {
	s := e.s
	out := &popReply{ok: rp.ok, first: rp.first, multi: rp.multi, lines: append([]string{}, rp.lines...)}
	if !rp.ok {
		return out
	}
	switch cmd.verb {
	case "UIDL":
		if rp.multi {
			for i, l := range out.lines {
				f := strings.SplitN(l, " ", 2)
				if len(f) == 2 {
					out.lines[i] = f[0] + " " + strconv.Itoa(s.rank(user, f[1]))
				}
			}
		} else {
			f := strings.Split(rp.first, " ")
			if len(f) == 3 {
				f[2] = strconv.Itoa(s.rank(user, f[2]))
				out.first = strings.Join(f, " ")
			}
		}
	case "RETR", "TOP":
		if len(out.lines) > 0 {
			t := "\r\n" + strings.Join(out.lines, "\r\n") + "\r\n"
			t = string(sysMask([]byte(t)))
			out.lines = strings.Split(t[2:len(t)-2], "\r\n")
		}
	}
	return out
}

// popOp: one whole POP3 session as a system operation
func (e *sysEnv) popOp(r *rand.Rand) {
	s := e.s
	user := "nobody"
	if len(s.boxes) > 0 && r.Intn(8) > 0 {
		user = s.boxes[r.Intn(len(s.boxes))]
	}
	if r.Intn(15) == 0 && user != "nobody" {
		user = strings.ToUpper(user) // F-04d: USER is taken verbatim, on both sides
	}
	if !sysPopSafe(user) {
		e.c.H("pop3:name-not-expressible(skipped)")
		return
	}
	snap, _ := s.store.GetMessages(user)
	n := len(snap)
	cmds := []popCmd{popMk("USER", user), popMk("PASS", "x")}
	if r.Intn(12) == 0 {
		cmds = []popCmd{popMk("APOP", user, "c4c9334bac560ecc979e58001b3e22fb")}
	}
	num := func() string {
		if n == 0 || r.Intn(10) == 0 {
			return strconv.Itoa(n + 1 + r.Intn(2))
		}
		return strconv.Itoa(1 + r.Intn(n))
	}
	marked := map[int]bool{}
	for i, k := 0, 1+r.Intn(7); i < k; i++ {
		switch x := r.Intn(100); {
		case x < 10:
			cmds = append(cmds, popMk("STAT"))
		case x < 22:
			cmds = append(cmds, popMk("LIST"))
		case x < 36:
			cmds = append(cmds, popMk("UIDL"))
		case x < 42:
			cmds = append(cmds, popMk("UIDL", num()))
		case x < 47:
			cmds = append(cmds, popMk("LIST", num()))
		case x < 60:
			cmds = append(cmds, popMk("RETR", num()))
		case x < 66:
			cmds = append(cmds, popMk("TOP", num(), strconv.Itoa(r.Intn(3))))
		case x < 92:
			cmds = append(cmds, popMk("DELE", num()))
		case x < 96:
			cmds = append(cmds, popMk("RSET"))
		default:
			cmds = append(cmds, popMk("NOOP"))
		}
	}
	quit := r.Intn(10) < 7
	if quit {
		cmds = append(cmds, popMk("QUIT"))
	}
	for _, cmd := range cmds {
		e.line("POP3 C: %q", cmd.line)
	}
	if !quit {
		e.line("POP3: the client drops the connection")
	}
	run := e.popRun(cmds, !quit)
	e.c.H("op:pop3")
	if run.panicv != "" {
		e.fail("no-panic", "POP3 session goroutine panicked: "+c14Trunc(run.panicv, 1200), "")
		s.bad = true
		return
	}
	if run.err != nil {
		e.fail("pop3-session-works", run.err.Error(), "")
		s.bad = true
		return
	}
	seg := e.settle()
	// what the client is entitled to expect (implementation only)
	inTrans := false
	for i, cmd := range cmds {
		rp := run.replies[i+1]
		switch cmd.verb {
		case "PASS", "APOP":
			if rp.ok {
				inTrans = true
			}
		case "DELE":
			if rp.ok && inTrans && cmd.nArg >= 1 && cmd.nArg <= n {
				marked[cmd.nArg] = true
			}
		case "RSET":
			if rp.ok && inTrans {
				marked = map[int]bool{}
			}
		}
	}
	var gone []string
	if quit && run.eof {
		for i := range snap {
			if marked[i+1] {
				gone = append(gone, snap[i].ID())
			}
		}
	}
	after, _ := s.store.GetMessages(user)
	var exp []string
	goneSet := map[string]bool{}
	for _, id := range gone {
		goneSet[id] = true
	}
	for _, m := range snap {
		if !goneSet[m.ID()] {
			exp = append(exp, m.ID())
		}
	}
	if sysIDs(after) != strings.Join(exp, ",") {
		o := "drop-removes-nothing"
		if quit {
			o = "quit-removes-exactly-marked"
		}
		e.fail(o, fmt.Sprintf("mailbox %q held [%s], marks %v, quit=%v: now [%s], expected [%s]", user, sysIDs(snap), marked, quit, sysIDs(after), strings.Join(exp, ",")), "")
	}
	if len(gone) > 0 {
		s.flags["deleted"] = true
		e.c.H("pop3:quit-with-deletes")
	}
	e.goneEverywhere("POP3 DELE+QUIT", user, gone, seg)
	// ---- model
	hexLines := make([]string, len(cmds))
	for i, cmd := range cmds {
		hexLines[i] = core.HexS(cmd.line)
	}
	ans := e.ask("pop3 term=eof lines=" + strings.Join(hexLines, ","))
	parts := strings.Split(ans, " R ")
	kv := popKV{}
	for _, t := range strings.Split(parts[0], " ") {
		if i := strings.IndexByte(t, '='); i > 0 {
			kv[t[:i]] = t[i+1:]
		}
	}
	if _, ok := kv["end"]; !ok {
		e.diverge("sys-driver", "pop3", ans)
		return
	}
	e.c.Compared(1)
	if len(parts)-1 != len(run.replies) {
		e.diverge("sys-pop3-replies", fmt.Sprintf("%d replies", len(run.replies)), fmt.Sprintf("%d replies: %s", len(parts)-1, parts[0]))
		return
	}
	for i, rp := range run.replies {
		cmd := popCmd{kArg: -1}
		if i > 0 {
			cmd = cmds[i-1]
		}
		impl := popCanon(cmd, e.popRewrite(user, cmd, rp))
		e.c.Compared(1)
		if impl != parts[i+1] {
			e.line("reply %d (to %q)", i, cmd.line)
			e.diverge("sys-pop3-replies", impl, parts[i+1])
			return
		}
	}
	wantEnd := "eof"
	if quit {
		wantEnd = "quit"
	}
	if kv["end"] != wantEnd || (quit && !run.eof) {
		e.diverge("sys-pop3-end", fmt.Sprintf("end=%s server-closed=%v", wantEnd, run.eof), parts[0])
		return
	}
	e.compareEvents("the POP3 session", seg, true)
}

// ---------------------------------------------------------------------------------------------- SMTP

type sysAck struct {
	addr, subj string
}

// acks: the (recipient, message) pairs the client was told 250 for — from the bytes sent and the replies only
func sysAcks(d smtpDialogue, res *dialogueResult) (acks []sysAck, exact bool) {
	exact = true
	inTrans, inData := false, false
	var accepted []string
	skip, blockIdx := 0, 0
	var cur []byte
	for i, l := range d.lines {
		ri := res.lineReply[i]
		if inData {
			if ri < 0 {
				continue
			}
			inData = false
			if res.replies[ri].code == 250 {
				for _, a := range accepted {
					acks = append(acks, sysAck{a, blockSubject(cur)})
				}
			}
			inTrans, accepted = false, nil
			continue
		}
		if ri < 0 {
			continue
		}
		r := res.replies[ri]
		if skip > 0 {
			skip--
			continue
		}
		cmd, arg, ok := harnessParseCmd(strings.TrimRight(string(l), "\r\n"))
		if !ok {
			continue
		}
		switch cmd {
		case "HELO", "EHLO", "RSET":
			if r.code == 250 {
				inTrans, accepted = false, nil
			}
		case "AUTH":
			if r.code == 334 {
				skip = 2
			}
		case "MAIL":
			if r.code == 250 {
				inTrans, accepted = true, nil
			}
		case "RCPT":
			if r.code == 250 && inTrans && len(arg) >= 3 {
				accepted = append(accepted, strings.Trim(arg[3:], "<> "))
			}
		case "DATA":
			if r.code == 354 {
				inData = true
				if blockIdx < len(d.blocks) {
					cur = d.blocks[blockIdx]
					blockIdx++
				} else {
					exact = false
				}
			} else if arg == "" && blockIdx < len(d.blocks) {
				blockIdx++
			}
		}
	}
	return
}

func sysRecase(s string) string {
	b := []byte(s)
	for i, ch := range b {
		if i%2 == 0 {
			if 'a' <= ch && ch <= 'z' {
				b[i] = ch - 32
			} else if 'A' <= ch && ch <= 'Z' {
				b[i] = ch + 32
			}
		}
	}
	return string(b)
}

var sysPlainLocal = regexp.MustCompile(`^([A-Za-z0-9.]+)(\+[A-Za-z0-9.]*)?@(.+)$`)

// sysOtherExt: the same address with another +extension ("" if the local part is not plain)
func sysOtherExt(a string) string {
	m := sysPlainLocal.FindStringSubmatch(a)
	if m == nil {
		return ""
	}
	return m[1] + "+zz9@" + m[3]
}

func (e *sysEnv) smtpOp(r *rand.Rand) { e.smtpOpFav(r, "") }

// churnOp: a mailbox that holds mail loses one message through REST — mostly its NEWEST — and then receives mail again.  Under a cap the
// mailbox is then below its cap with ids that are no longer contiguous: the delivery must add exactly one message and evict nothing
// (C01: the recipient's mailbox gains the message, nothing else changes; C08: only what is necessary).
func (e *sysEnv) churnOp(r *rand.Rand) {
	s := e.s
	var cands []string
	for _, b := range s.boxes {
		if _, ok := s.addrOf[b]; ok && sysRestSafe(b) {
			if ms, _ := s.store.GetMessages(b); len(ms) > 0 {
				cands = append(cands, b)
			}
		}
	}
	if len(cands) == 0 {
		e.smtpOp(r)
		return
	}
	box := cands[r.Intn(len(cands))]
	e.c.H("op:churn")
	for k, n := 0, 1+r.Intn(3); k < n && !s.bad; k++ {
		e.smtpOpFav(r, s.addrOf[box])
	}
	if ms, _ := s.store.GetMessages(box); len(ms) > 0 && !s.bad {
		id := ms[len(ms)-1].ID()
		if r.Intn(3) == 0 {
			id = ms[r.Intn(len(ms))].ID()
		}
		e.restOp("MailboxDeleteV1", "DELETE", box, id, "", "")
	}
	if !s.bad {
		e.smtpOpFav(r, s.addrOf[box])
	}
}

func (e *sysEnv) smtpOpFav(r *rand.Rand, fav string) {
	s := e.s
	g := &smtpGen{r: r, env: s.env, errRate: 8, favour: fav}
	before := map[string][]string{} // every mailbox's listing before the connection (operations of a scenario do not overlap)
	sizeOf := map[string]int{}      // mailbox \x00 id -> size, of everything listed before
	_ = s.store.VisitMailboxes(func(ms []storage.Message) bool {
		for _, m := range ms {
			before[m.Mailbox()] = append(before[m.Mailbox()], m.ID())
			sizeOf[m.Mailbox()+"\x00"+m.ID()] = int(m.Size())
		}
		return true
	})
	if s.maxkb > 0 && r.Intn(2) == 0 {
		g.bigBody = true // messages of 1-3 KB: evictions by the byte limit, also of the message being delivered
	}
	d := g.dialogue()
	cut := -1
	if r.Intn(8) == 0 { // the client vanishes after `cut` bytes (it still reads the reply to a line it completed)
		total := 0
		for _, l := range d.lines {
			total += len(l)
		}
		if total > 0 {
			cut = r.Intn(total + 1)
		}
	}
	var res dialogueResult
	if e.smtpPlay != nil {
		res = e.smtpPlay(d.lines, cut, true)
	} else {
		res = s.stack.play(d.lines, cut, true)
	}
	e.c.H("op:smtp")
	if cut >= 0 {
		e.c.H("smtp:connection-cut")
	}
	for _, l := range linesOfStream(res.written) {
		e.line("SMTP C: %s", strconv.Quote(c14Trunc(l, 160)))
	}
	if cut >= 0 {
		e.line("SMTP: the client sent %d bytes and vanished", len(res.written))
	}
	if res.panicked != "" {
		e.fail("no-panic", "SMTP session goroutine panicked: "+res.panicked, "")
		s.bad = true
		return
	}
	if res.wedged || res.noReply >= 0 {
		e.fail("smtp-session-works", fmt.Sprintf("wedged=%v, no reply to line %d", res.wedged, res.noReply), "")
		s.bad = true
		return
	}
	if e.afterSMTP != nil {
		e.afterSMTP(d, cut, &res)
	}
	seg := e.settle()
	var clock []string
	stored := map[string]int{}
	var newIDs []sysEv
	gone := map[string]bool{}
	for _, ev := range seg {
		if ev.kind == 's' {
			clock = append(clock, strconv.FormatInt(ev.date.UnixNano(), 10))
			stored[ev.box+"\x00"+ev.subj]++
			newIDs = append(newIDs, ev)
		} else {
			gone[ev.box+"\x00"+ev.id] = true
		}
	}
	if len(newIDs) > 0 {
		s.flags["stored"] = true
	}
	// ---- implementation only: C01 at system level — one stored event per acknowledged storable recipient, and only those
	acks, exact := sysAcks(d, &res)
	want := map[string]int{}
	type fetch struct{ addr, box, subj string }
	var fetches []fetch
	for _, a := range acks {
		_, dom, err := policy.ParseEmailAddress(a.addr)
		if err != nil {
			exact = false
			// the server acknowledged a recipient whose address the exported parser refuses (it was completed or rewritten on the way in).  The
			// property still speaks about it: what was acknowledged for an address is found where a reader asking for THAT address is sent.
			// Judged only where every domain is stored, so that "not stored" cannot be the policy's doing.
			if s.env.pol.ds && len(s.env.pol.dis) == 0 && a.subj != "" {
				boxes := []string{}
				for _, ev := range newIDs {
					if ev.subj == a.subj {
						boxes = append(boxes, ev.box)
					}
				}
				rd, rerr := s.stack.ap.ExtractMailbox(a.addr)
				found := false
				for _, b := range boxes {
					if rerr == nil && b == rd {
						found = true
					}
				}
				if len(boxes) > 0 && !found {
					e.fail("mail-is-fetchable-by-address", fmt.Sprintf("RCPT TO:<%s> and the message (subject %q) were acknowledged with 250 and copies were stored in %q, but a reader asking for %q is sent to mailbox %q (err %v)", a.addr, a.subj, boxes, a.addr, rd, rerr), "")
				}
			}
			continue
		}
		if !s.env.ruleStore(dom) {
			continue
		}
		mb, err := s.stack.ap.ExtractMailbox(a.addr)
		if err != nil {
			exact = false
			continue
		}
		want[mb+"\x00"+a.subj]++
		fetches = append(fetches, fetch{a.addr, mb, a.subj})
		if _, ok := s.addrOf[mb]; !ok || r.Intn(3) == 0 {
			s.addrOf[mb] = a.addr
		}
	}
	if exact {
		keys := map[string]bool{}
		for k := range want {
			keys[k] = true
		}
		for k := range stored {
			keys[k] = true
		}
		for k := range keys {
			if want[k] != stored[k] {
				p := strings.SplitN(k, "\x00", 2)
				e.fail("stored-once-per-acknowledged-recipient", fmt.Sprintf("mailbox %q subject %q: the client was told 250 for %d storable recipient(s), %d stored event(s) were emitted", p[0], p[1], want[k], stored[k]), "")
			}
		}
	}
	e.bounds("the SMTP connection")
	// ---- implementation only: a delivery takes from a mailbox only what its cap requires — the oldest messages, and only as many as the
	// mailbox is over its cap (C01: the recipient's mailbox gains the message and nothing else changes; C08: only what is necessary)
	if s.maxkb == 0 {
		storedIn, goneIn := map[string][]string{}, map[string][]string{}
		for _, ev := range seg {
			if ev.kind == 's' {
				storedIn[ev.box] = append(storedIn[ev.box], ev.id)
			} else {
				goneIn[ev.box] = append(goneIn[ev.box], ev.id)
			}
		}
		for box, g := range goneIn {
			all := append(append([]string{}, before[box]...), storedIn[box]...)
			wantG := 0
			if s.cap > 0 && len(all) > s.cap {
				wantG = len(all) - s.cap
			}
			if len(g) != wantG {
				e.fail("delivery-evicts-only-over-cap", fmt.Sprintf("mailbox %q listed %d message(s) %v before the connection and received %d (cap %d): %d message(s) had to make room, %d were announced deleted %v", box, len(before[box]), before[box], len(storedIn[box]), s.cap, wantG, len(g), g), "")
				continue
			}
			oldest := map[string]bool{}
			for _, id := range all[:wantG] {
				oldest[id] = true
			}
			for _, id := range g {
				if !oldest[id] {
					e.fail("delivery-evicts-only-over-cap", fmt.Sprintf("mailbox %q (cap %d): message %s was evicted although it is not among the %d oldest of %v", box, s.cap, id, wantG, all), "")
				}
			}
		}
		if s.cap > 0 {
			for box, st := range storedIn {
				if over := len(before[box]) + len(st) - s.cap; over > 0 && len(goneIn[box]) == 0 {
					e.fail("delivery-evicts-only-over-cap", fmt.Sprintf("mailbox %q listed %d message(s) before the connection and received %d (cap %d) but nothing was announced deleted", box, len(before[box]), len(st), s.cap), "")
				}
			}
		}
	}
	// ---- implementation only, stores with a byte limit: whatever a connection takes from a mailbox beyond what that mailbox's cap requires
	// had to go for the limit — it would not fit beside what the store holds afterwards (C01: no other mailbox changes; C08: only what is necessary)
	if s.maxkb > 0 {
		live := 0
		_ = s.store.VisitMailboxes(func(ms []storage.Message) bool {
			for _, m := range ms {
				live += int(m.Size())
			}
			return true
		})
		storedIn, goneIn := map[string][]string{}, map[string][]string{}
		for _, ev := range seg {
			if ev.kind == 's' {
				storedIn[ev.box] = append(storedIn[ev.box], ev.id)
			} else {
				goneIn[ev.box] = append(goneIn[ev.box], ev.id)
			}
		}
		// judged where the arithmetic is unambiguous: ONE message was stored by this connection and it is still there, so every eviction happened
		// inside that one AddMessage, oldest first, until the store fitted again: the store as it is now plus the LARGEST of the evicted messages
		// exceeds the limit (the last one evicted had to go)
		nStored, newLive := 0, false
		for box, ids := range storedIn {
			nStored += len(ids)
			for _, id := range ids {
				if m, err := s.store.GetMessage(box, id); err == nil && m != nil {
					newLive = true
				}
			}
		}
		if nStored == 1 && newLive {
			maxSz, which := -1, ""
			for box, g := range goneIn {
				all := append(append([]string{}, before[box]...), storedIn[box]...)
				byCap := map[string]bool{}
				if s.cap > 0 && len(all) > s.cap {
					for _, id := range all[:len(all)-s.cap] {
						byCap[id] = true
					}
				}
				for _, id := range g {
					if sz, known := sizeOf[box+"\x00"+id]; known && !byCap[id] && sz > maxSz {
						maxSz, which = sz, box+"/"+id
					}
				}
			}
			if maxSz >= 0 && live+maxSz <= s.maxkb*1024 {
				e.fail("delivery-evicts-only-over-limit", fmt.Sprintf("one message was delivered and is listed; beyond what the mailbox caps (%d) require the connection cost the store other messages, the largest of them %s (%d bytes) — yet the store now holds %d of %d bytes: that message still fits, nothing had to go for the limit", s.cap, which, maxSz, live, s.maxkb*1024), "")
			}
		}
	}
	// ---- implementation only: fetchable under every spelling, same through POP3
	if len(fetches) > 0 {
		f := fetches[r.Intn(len(fetches))]
		var liveIDs []string
		for _, ev := range newIDs {
			if ev.box == f.box && ev.subj == f.subj && !gone[ev.box+"\x00"+ev.id] {
				liveIDs = append(liveIDs, ev.id)
			}
		}
		if s.cap == 0 && s.maxkb == 0 && exact && len(liveIDs) == 0 {
			e.fail("acknowledged-mail-is-stored", fmt.Sprintf("250 for %q (mailbox %q, subject %q) but no live copy (no cap, no byte limit)", f.addr, f.box, f.subj), "")
		}
		spell := []string{f.addr, f.box}
		if rc := sysRecase(f.addr); rc != f.addr {
			if _, err := s.stack.ap.NewRecipient(rc); err == nil {
				spell = append(spell, rc)
			}
		}
		if x := sysOtherExt(f.addr); x != "" {
			spell = append(spell, x)
		}
		for _, name := range spell {
			if !sysRestSafe(name) {
				e.c.H("fetch:name-with-slash(F-14c, skipped)")
				continue
			}
			e.c.H("fetch:spelling")
			rp := e.http("GET", name, "", "", "")
			if rp.err != nil {
				continue
			}
			if rp.status != 200 {
				e.fail("mail-is-fetchable-by-address", fmt.Sprintf("mail for %q was acknowledged (mailbox %q); REST list asked as %q answers %d", f.addr, f.box, name, rp.status), "")
				continue
			}
			_, hs := e.decodeList(rp.body)
			listed := map[string]string{}
			for _, h := range hs {
				if h.Mailbox == f.box {
					listed[h.ID] = h.Subject
				}
			}
			for _, id := range liveIDs {
				if sj, ok := listed[id]; !ok || sj != f.subj {
					e.fail("mail-is-fetchable-by-address", fmt.Sprintf("mail for %q (mailbox %q, id %s, subject %q) is not listed by REST asked as %q (listed: %v)", f.addr, f.box, id, f.subj, name, listed), "")
				}
			}
			if len(liveIDs) > 0 && name != f.box {
				sr := e.http("GET", name, liveIDs[0], "/source", "")
				if m, err := s.store.GetMessage(f.box, liveIDs[0]); err == nil && m != nil {
					if rd, err := m.Source(); err == nil {
						src, _ := io.ReadAll(rd)
						rd.Close()
						if sr.status != 200 || !bytes.Equal(sr.body, src) {
							e.fail("mail-is-fetchable-by-address", fmt.Sprintf("source of %q/%s asked as %q: status %d, %d bytes; the store holds %d bytes", f.box, liveIDs[0], name, sr.status, len(sr.body), len(src)), "")
						}
					}
				}
			}
		}
		e.popCross(f.box)
	}
	// ---- model
	ml := s.stack.modelLine(res.written, d.blocks, "-")
	ml = "smtp" + strings.TrimPrefix(ml, "run")
	ml = strings.Replace(ml, " ts="+core.HexS("TS")+" ", " ts="+core.HexS(sysTS)+" ", 1)
	if e.rhost != "" {
		ml = strings.Replace(ml, " rhost="+core.HexS("pipe")+" ", " rhost="+core.HexS(e.rhost)+" ", 1)
	}
	if e.domain != "" {
		ml = strings.Replace(ml, " domain="+core.HexS("inbucket.test")+" ", " domain="+core.HexS(e.domain)+" ", 1)
	}
	if len(clock) == 0 {
		ml += " clock=-"
	} else {
		ml += " clock=" + strings.Join(clock, ",")
	}
	ans := e.m.Ask(ml)
	e.line("   model: smtp … clock=%s -> %s", strings.Join(clock, ","), c14Trunc(ans, 300))
	wantToks := stripStore(strings.Split(ans, " "))
	got := make([]string, len(res.replies))
	for i, rp := range res.replies {
		got[i] = rp.token()
	}
	e.c.Compared(1)
	same := strings.Join(got, " ") == strings.Join(wantToks, " ")
	if cut >= 0 { // replies to a cut-off tail cannot be observed: everything awaited must agree
		same = len(got) <= len(wantToks) && len(got) >= res.awaited
		for i := 0; same && i < len(got); i++ {
			same = got[i] == wantToks[i]
		}
	}
	if !same {
		e.diverge("sys-smtp-replies", strings.Join(got, " "), strings.Join(wantToks, " ")+"   ["+c14Trunc(ans, 300)+"]")
		return
	}
	e.compareEvents("the SMTP connection", seg, true)
}

// ---------------------------------------------------------------------------------------------- old mail, scan, direct delete

func (e *sysEnv) oldMail(r *rand.Rand, now time.Time) {
	s := e.s
	box := []string{"archive", "old.box", "alice", "bob"}[r.Intn(4)]
	switch s.naming { // canonical names only: what a delivery can produce under this naming mode
	case "full":
		box = []string{"alice@example.com", "archive@old.example", "bob@other.org"}[r.Intn(3)]
	case "domain":
		box = []string{"example.com", "old.example", "other.org"}[r.Intn(3)]
	}
	if len(s.boxes) > 0 && r.Intn(2) == 0 {
		box = s.boxes[r.Intn(len(s.boxes))]
	}
	age := time.Duration(1+r.Intn(6))*time.Hour + time.Duration(r.Intn(20))*time.Minute
	date := now.Add(-age).Round(0)
	subj := fmt.Sprintf("old-%d", r.Intn(100000))
	src := []byte(fmt.Sprintf("Return-Path: <old@src.example>\r\nReceived: from old ([pipe]) by inbucket.test\r\n  for <%s>; %s\r\nSubject: %s\r\n\r\nold body %s\r\n", box, sysTS, subj, strings.Repeat("o", r.Intn(200))))
	from := &mail.Address{Address: "old@src.example"}
	to := []*mail.Address{{Address: "someone@old.example"}}
	dl := &message.Delivery{Meta: event.MessageMetadata{Mailbox: box, From: from, To: to, Date: date, Subject: subj, Size: int64(len(src))}, Reader: bytes.NewReader(src)}
	e.line("old mail: AddMessage(%q, date now-%v, %d bytes) + stored event", box, age, len(src))
	id, err := s.store.AddMessage(dl)
	if err != nil {
		e.fail("store-works", "AddMessage: "+err.Error(), "")
		s.bad = true
		return
	}
	ev := dl.Meta
	ev.ID = id
	s.host.Events.AfterMessageStored.Emit(&ev)
	e.c.H("op:oldmail")
	seg := e.settle()
	ans := e.ask(fmt.Sprintf("store add %s %s from=%s to=%s subj=%s date=%d", core.HexS(box), core.Hex(src), core.HexS(from.Address), core.HexList([]string{to[0].Address}), core.HexS(subj), date.UnixNano()))
	e.c.Compared(1)
	if got := fmt.Sprintf("id:%d", s.rank(box, id)); got != ans {
		e.diverge("sys-store-add", got, ans)
		return
	}
	e.bounds("old mail")
	e.compareEvents("old mail", seg, true)
}

func sysRel(d time.Duration) string {
	d = d.Round(time.Second)
	if d < 0 {
		return "now" + d.String()
	}
	return "now+" + d.String()
}

func (e *sysEnv) scanOp(r *rand.Rand) {
	s := e.s
	live, err := e.liveAll()
	if err != nil {
		e.fail("visit-works", err.Error(), "")
		s.bad = true
		return
	}
	now := time.Now()
	// candidate cutoffs: far past, between the old mail and everything fresh, between two old dates, far future
	cands := []time.Time{now.Add(-48 * time.Hour), now.Add(-30 * time.Minute), now.Add(2 * time.Hour)}
	var dates []time.Time
	for _, m := range live {
		if now.Sub(m.date) > 45*time.Minute {
			dates = append(dates, m.date)
		}
	}
	sort.Slice(dates, func(i, j int) bool { return dates[i].Before(dates[j]) })
	for i := 0; i+1 < len(dates); i++ {
		if dates[i+1].Sub(dates[i]) > 10*time.Minute {
			cands = append(cands, dates[i].Add(dates[i+1].Sub(dates[i])/2))
		}
	}
	target := cands[r.Intn(len(cands))].Round(0)
	for _, m := range live {
		if d := m.date.Sub(target); d > -2*time.Minute && d < 2*time.Minute {
			e.c.H("scan:cutoff-too-close-to-a-date(skipped)")
			return
		}
	}
	w := &sysScanStore{Store: s.store}
	t0 := time.Now()
	rs := storage.NewRetentionScanner(config.Storage{RetentionPeriod: t0.Sub(target), RetentionSleep: 0}, w)
	ctx, cancel := context.WithTimeout(context.Background(), sysWait)
	err = rs.DoScan(ctx)
	cancel()
	e.line("retention scan, cutoff = %s", sysRel(target.Sub(now)))
	e.c.H("op:scan")
	if err != nil {
		e.fail("doscan-no-error", "DoScan returned "+err.Error(), "")
		s.bad = true
		return
	}
	if !w.tVisit.IsZero() && w.tVisit.Sub(t0) > time.Minute {
		e.c.Note("a retention scan took more than a minute to start; its cutoff is not known well enough")
		s.bad = true
		return
	}
	seg := e.settle()
	// implementation only: exactly the expired are gone, each announced once
	after, _ := e.liveAll()
	still := map[string]bool{}
	for _, m := range after {
		still[m.box+"\x00"+m.id] = true
	}
	announced := map[string]int{}
	for _, ev := range seg {
		if ev.kind != 'd' {
			e.fail("scan-emits-only-deletes", fmt.Sprintf("the scan emitted %c(%q/%s)", ev.kind, ev.box, ev.id), "")
		}
		announced[ev.box+"\x00"+ev.id]++
	}
	nExp := 0
	for _, m := range live {
		k := m.box + "\x00" + m.id
		expired := m.date.Before(target)
		if expired {
			nExp++
		}
		if expired == still[k] {
			e.fail("scan-removes-exactly-the-expired", fmt.Sprintf("%q/%s dated %s, cutoff %s: expired=%v, still stored=%v", m.box, m.id, sysRel(m.date.Sub(now)), sysRel(target.Sub(now)), expired, still[k]), "")
		}
		if want := map[bool]int{true: 1, false: 0}[expired]; announced[k] != want {
			e.fail("one-deleted-event-per-removal", fmt.Sprintf("scan: %q/%s expired=%v, %d deleted events", m.box, m.id, expired, announced[k]), "")
		}
	}
	if len(after) != len(live)-nExp {
		e.fail("scan-removes-exactly-the-expired", fmt.Sprintf("%d messages before, %d expired, %d after", len(live), nExp, len(after)), "")
	}
	if nExp > 0 {
		s.flags["removed"] = true
		e.c.H("scan:removed-some")
	} else {
		e.c.H("scan:removed-none")
	}
	ans := e.ask(fmt.Sprintf("scan cutoff=%d", target.UnixNano()))
	if !strings.HasPrefix(ans, "ev=") {
		e.diverge("sys-driver", "scan", ans)
		return
	}
	var wantEv []string
	if t := strings.TrimPrefix(ans, "ev="); t != "" {
		wantEv = strings.Split(t, ",")
	}
	got := []string{}
	for _, ev := range seg {
		got = append(got, fmt.Sprintf("%s/%d", core.HexS(ev.box), s.rank(ev.box, ev.id)))
	}
	e.c.Compared(1)
	if strings.Join(sortedCopy(got), ",") != strings.Join(sortedCopy(wantEv), ",") {
		e.diverge("sys-scan-events", strings.Join(sortedCopy(got), ","), strings.Join(sortedCopy(wantEv), ","))
		return
	}
	e.compareEvents("the scan", seg, false)
}

func (e *sysEnv) directDelete(r *rand.Rand) {
	s := e.s
	if len(s.boxes) == 0 {
		return
	}
	box := s.boxes[r.Intn(len(s.boxes))]
	ids := s.ids[box]
	id := ids[r.Intn(len(ids))]
	switch r.Intn(6) {
	case 0: // direct purge
		before, _ := s.store.GetMessages(box)
		e.line("direct Store.PurgeMessages(%q)", box)
		err := s.store.PurgeMessages(box)
		e.c.H("op:direct-purge")
		seg := e.settle()
		if err == nil {
			all := []string{}
			for _, m := range before {
				all = append(all, m.ID())
			}
			if len(all) > 0 {
				s.flags["removed"] = true
			}
			e.goneEverywhere("PurgeMessages", box, all, seg)
		}
		ans := e.ask("store purge " + core.HexS(box))
		e.c.Compared(1)
		if errClass(err) != ans {
			e.diverge("sys-store-purge", errClass(err), ans)
			return
		}
		e.compareEvents("the direct purge", seg, false)
		return
	case 1: // direct mark-seen
		e.line("direct Store.MarkSeen(%q, %s)", box, id)
		err := s.store.MarkSeen(box, id)
		e.c.H("op:direct-seen")
		seg := e.settle()
		if len(seg) != 0 {
			e.fail("reads-emit-nothing", fmt.Sprintf("MarkSeen(%q,%s) emitted %d message events", box, id, len(seg)), "")
		}
		ans := e.ask(fmt.Sprintf("store seen %s %d", core.HexS(box), s.rank(box, id)))
		e.c.Compared(1)
		if errClass(err) != ans {
			e.diverge("sys-store-seen", errClass(err), ans)
			return
		}
		e.compareEvents("the direct mark-seen", seg, true)
		return
	}
	e.line("direct Store.RemoveMessage(%q, %s)", box, id)
	err := s.store.RemoveMessage(box, id)
	e.c.H("op:direct-delete")
	seg := e.settle()
	if err == nil {
		s.flags["removed"] = true
		e.goneEverywhere("RemoveMessage", box, []string{id}, seg)
	} else if len(seg) != 0 {
		e.fail("failed-request-changes-nothing", fmt.Sprintf("RemoveMessage(%q,%s) = %v emitted %d events", box, id, err, len(seg)), "")
	}
	ans := e.ask(fmt.Sprintf("store rm %s %d", core.HexS(box), s.rank(box, id)))
	e.c.Compared(1)
	if errClass(err) != ans {
		e.diverge("sys-store-rm", errClass(err), ans)
		return
	}
	e.compareEvents("the direct delete", seg, true)
}

// ---------------------------------------------------------------------------------------------- one scenario

func (e *sysEnv) build(r *rand.Rand, n int) bool {
	s := &sysScn{idx: n, ranks: map[string]map[string]int{}, ids: map[string][]string{}, addrOf: map[string]string{}, flags: map[string]bool{}}
	e.s = s
	s.naming = []string{"local", "local", "full", "domain"}[r.Intn(4)]
	s.backend = []string{"mem", "file"}[n%2]
	s.cap = []int{0, 0, 2, 0, 1, 3}[r.Intn(6)]
	if s.backend == "mem" {
		s.maxkb = []int{0, 0, 1, 2}[r.Intn(4)]
	}
	prof := smtpProfile{namings: []string{s.naming}}
	s.env = prof.randEnv(r)
	s.env.cap = s.cap
	s.env.maxBytes = []int{100000, 100000, 5000, 600, 250}[r.Intn(5)]
	s.maxBytes = s.env.maxBytes
	if r.Intn(4) > 0 { // mostly a policy under which mail gets stored
		s.env.pol.da, s.env.pol.ds = true, true
	}
	if s.env.maxRcpt == 0 && r.Intn(3) > 0 {
		s.env.maxRcpt = 3
	}
	return e.assemble(n)
}

// assemble builds the real stack of e.s (configuration already chosen) and hands the router's manager to it
func (e *sysEnv) assemble(n int) bool {
	s := e.s
	var err error
	smtpMu.Lock()
	root, lerr := s.env.pol.load()
	smtpMu.Unlock()
	if lerr != nil {
		e.c.Note("config.Process failed: %v", lerr)
		return false
	}
	switch s.naming {
	case "local":
		root.MailboxNaming = config.LocalNaming
	case "full":
		root.MailboxNaming = config.FullNaming
	case "domain":
		root.MailboxNaming = config.DomainNaming
	}
	root.SMTP.MaxRecipients = s.env.maxRcpt
	root.SMTP.MaxMessageBytes = s.env.maxBytes
	root.SMTP.Domain = "inbucket.test"
	root.SMTP.Timeout = 60 * time.Second
	root.SMTP.TLSEnabled = false
	root.SMTP.ForceTLS = false
	s.host = extension.NewHost()
	s.rec = &sysRecorder{synced: map[string]bool{}}
	s.hubRec = &sysRecorder{synced: map[string]bool{}}
	s.host.Events.AfterMessageStored.AddListener("verifsys", s.rec.stored)
	s.host.Events.AfterMessageDeleted.AddListener("verifsys", func(m event.MessageMetadata) { s.rec.deleted(m.Mailbox, m.ID, m.Size) })
	s.hub = msghub.New(30, s.host)
	cfg := config.Storage{MailboxMsgCap: s.cap, Params: map[string]string{}}
	if s.backend == "mem" {
		if s.maxkb > 0 {
			cfg.Params["maxkb"] = strconv.Itoa(s.maxkb)
		}
		s.store, err = mem.New(cfg, s.host)
	} else {
		cfg.Params["path"] = filepath.Join(e.k.Work, fmt.Sprintf("fs-%d", n))
		os.MkdirAll(cfg.Params["path"], 0o755)
		s.store, err = file.New(cfg, s.host)
	}
	if err != nil {
		e.c.Note("store construction failed: %v", err)
		return false
	}
	ap := &policy.Addressing{Config: root}
	// the ONE manager the router serves now belongs to this scenario
	e.mgr.AddrPolicy, e.mgr.Store, e.mgr.ExtHost = ap, s.store, s.host
	srv := smtp.NewServer(root.SMTP, e.mgr, ap, s.host)
	s.stack = &smtpStack{env: s.env, root: root, ap: ap, host: s.host, store: s.store, srv: srv}
	s.pop, err = pop3.NewServer(config.POP3{Domain: "verif.local", Timeout: 60 * time.Second}, s.store)
	if err != nil {
		e.c.Note("pop3.NewServer failed: %v", err)
		return false
	}
	return true
}

// startHub runs the hub and attaches the recording monitor; the returned func stops everything of the scenario
func (e *sysEnv) startHub(n int) func() {
	s := e.s
	ctx, cancel := context.WithCancel(context.Background())
	hubDone := make(chan struct{})
	go func() { s.hub.Start(ctx); close(hubDone) }()
	s.hub.AddListener(sysHubListener{s.hubRec})
	return func() {
		cancel()
		<-hubDone
		for _, nm := range []string{"verifsys", "msghub"} { // lets the per-listener queue goroutines end
			s.host.Events.AfterMessageStored.RemoveListener(nm)
			s.host.Events.AfterMessageDeleted.RemoveListener(nm)
		}
		if s.backend == "file" {
			os.RemoveAll(filepath.Join(e.k.Work, fmt.Sprintf("fs-%d", n)))
		}
	}
}

// replayF16c: the stored witness of the open finding F-16c (second form) on the whole stack, deterministic: with a
// 1 KB store limit one SMTP connection delivers a 2 KB message; the size enforcer evicts it inside AddMessage, Deliver
// announces it stored afterwards — the extension listener and the monitor behind the hub are told deleted, then stored.
func (e *sysEnv) replayF16c() {
	s := &sysScn{idx: -1, ranks: map[string]map[string]int{}, ids: map[string][]string{}, addrOf: map[string]string{}, flags: map[string]bool{},
		naming: "local", backend: "mem", maxkb: 1, maxBytes: 100000}
	s.env = &smtpEnv{naming: "local", pol: envCfg{da: true, ds: true}, maxRcpt: 5, maxBytes: 100000,
		hookMail: map[string]hookAns{}, hookRcpt: map[string]hookAns{}, hookStored: map[string]inboundRepl{}}
	e.s = s
	if !e.assemble(-1) {
		return
	}
	defer e.startHub(-1)()
	lines := [][]byte{[]byte("HELO client.example\r\n"), []byte("MAIL FROM:<from@example.com>\r\n"), []byte("RCPT TO:<big@example.com>\r\n"), []byte("DATA\r\n"),
		[]byte("Subject: big\r\n"), []byte("\r\n"), []byte(strings.Repeat("x", 2000) + "\r\n"), []byte(".\r\n"), []byte("QUIT\r\n")}
	res := s.stack.play(lines, -1, true)
	seg := e.settle()
	hub := s.hubRec.snapshot()
	e.c.Compared(1)
	e.c.Count("F-16c-replay-on-the-whole-stack", true)
	order := func(l []sysEv) string {
		t := []string{}
		for _, ev := range l {
			t = append(t, fmt.Sprintf("%c:%s/%s", ev.kind, ev.box, ev.id))
		}
		return strings.Join(t, ",")
	}
	got, gotHub := order(seg), order(hub)
	switch {
	case got == "d:big/1,s:big/1" && gotHub == got:
		if e.c.IsOpen("F-16c") {
			e.c.KnownStillFails("F-16c")
		} else {
			e.c.Fail("stored-before-deleted", []string{"memory store maxkb=1; one SMTP connection delivers a 2 KB message to big@example.com"}, "listener and hub monitor saw "+got, "F-16c")
		}
	case got == "s:big/1,d:big/1" && gotHub == got:
		e.c.Note("F-16c: the stored witness no longer fails on the whole stack (stored is announced before deleted)")
	default:
		e.c.Fail("events-exact", []string{"F-16c replay on the whole stack"}, fmt.Sprintf("extension listener saw [%s], hub monitor saw [%s], %d SMTP replies", got, gotHub, len(res.replies)), "")
	}
}

func (e *sysEnv) scenario(n int) {
	r := e.c.SubRng(fmt.Sprintf("sys-scn-%d", n))
	if !e.build(r, n) {
		return
	}
	s := e.s
	defer e.startHub(n)()
	cfgLine := fmt.Sprintf("cfg naming=%s cap=%d limit=%d maxbytes=%d", s.naming, s.cap, s.maxkb*1024, s.maxBytes)
	if a := e.m.Ask(cfgLine); a != "ok" {
		e.line(cfgLine)
		e.diverge("sys-driver", "ok", a)
		return
	}
	e.c.H("backend:" + s.backend)
	e.c.H(fmt.Sprintf("cap:%d", s.cap))
	e.c.H(fmt.Sprintf("maxkb:%d", s.maxkb))
	e.c.H("naming:" + s.naming)
	now := time.Now()
	for i, k := 0, r.Intn(4); i < k && !s.bad; i++ {
		e.oldMail(r, now)
	}
	nOps := 8 + r.Intn(15)
	for i := 0; i < nOps && !s.bad; i++ {
		switch x := r.Intn(100); {
		case x < 28:
			e.smtpOp(r)
		case x < 34:
			e.churnOp(r)
		case x < 50:
			e.popOp(r)
		case x < 82:
			e.restRandom(r)
		case x < 90:
			e.scanOp(r)
		case x < 95:
			e.directDelete(r)
		default:
			e.oldMail(r, now)
		}
		if !s.bad {
			e.bounds("operation " + strconv.Itoa(i))
		}
	}
	if s.bad {
		return
	}
	e.finish()
}

func (e *sysEnv) restRandom(r *rand.Rand) {
	s := e.s
	box := "nobody" + strconv.Itoa(r.Intn(3))
	if len(s.boxes) > 0 {
		box = s.boxes[r.Intn(len(s.boxes))]
	}
	name := box
	if a, ok := s.addrOf[box]; ok {
		switch x := r.Intn(20); {
		case x < 4:
			name = a
		case x < 6:
			name = sysRecase(a)
		case x < 8:
			if o := sysOtherExt(a); o != "" {
				name = o
			}
		}
	}
	switch r.Intn(25) {
	case 0:
		name = "nobody" + strconv.Itoa(r.Intn(3))
	case 1:
		name = []string{"a..b", ".lead", "trail.", "sp ace", "q\"uote", "ü", "%", "a@b@c", "@", "x@"}[r.Intn(10)]
	}
	if !sysRestSafe(name) {
		e.c.H("rest:name-with-slash(F-14c, skipped)")
		return
	}
	pickID := func() string {
		ids := s.ids[box]
		switch y := r.Intn(12); {
		case y == 0:
			return "latest"
		case y == 1:
			return []string{"zz-top", "0", "99999", "20060102T150405-0001", "LATEST"}[r.Intn(5)]
		case len(ids) == 0:
			return "1"
		default:
			// mostly a live one
			if ms, _ := s.store.GetMessages(box); len(ms) > 0 && r.Intn(4) > 0 {
				return ms[r.Intn(len(ms))].ID()
			}
			return ids[r.Intn(len(ids))]
		}
	}
	switch x := r.Intn(100); {
	case x < 25:
		e.restOp("MailboxListV1", "GET", name, "", "", "")
	case x < 40:
		e.restOp("MailboxShowV1", "GET", name, pickID(), "", "")
	case x < 55:
		e.restOp("MailboxSourceV1", "GET", name, pickID(), "/source", "")
	case x < 70:
		e.restOp("MailboxMarkSeenV1", "PATCH", name, pickID(), "", []string{"true", "true", "true", "false", ""}[r.Intn(5)])
	case x < 93:
		e.restOp("MailboxDeleteV1", "DELETE", name, pickID(), "", "")
	default:
		e.restOp("MailboxPurgeV1", "DELETE", name, "", "", "")
	}
}

// finish: whole store, whole log, and the monitor's view (implementation only)
func (e *sysEnv) finish() {
	s := e.s
	if seg := e.settle(); len(seg) != 0 {
		e.fail("no-spontaneous-events", fmt.Sprintf("%d message events arrived after the last operation had been settled", len(seg)), "")
	}
	got := e.dump()
	e.line("dump")
	want := e.m.Ask("dump")
	e.c.Compared(1)
	if got != want {
		e.diverge("sys-final-store", got, want)
		return
	}
	all := s.rec.snapshot()
	toks := make([]string, len(all))
	for i, ev := range all {
		toks[i] = sysEvTok(s, ev)
	}
	ans := e.m.Ask("log")
	var wlog []string
	for _, t := range strings.Split(ans, " ") {
		if strings.HasPrefix(t, "ev=") && len(t) > 3 {
			wlog = strings.Split(t[3:], ",")
		}
	}
	e.c.Compared(1)
	if strings.Join(sortedCopy(toks), ",") != strings.Join(sortedCopy(wlog), ",") {
		e.diverge("sys-log-multiset", strings.Join(toks, ","), strings.Join(wlog, ","))
		return
	}
	// per message: stored before deleted, in the model exactly where it is so in the implementation
	pos := func(l []string) map[string]int {
		m := map[string]int{}
		for i, t := range l {
			m[t] = i
		}
		return m
	}
	pi, pm := pos(toks), pos(wlog)
	for t, i := range pi {
		if t[0] != 'd' {
			continue
		}
		st := "s" + t[1:]
		implOrder := pi[st] < i
		modelOrder := pm[st] < pm[t]
		if implOrder != modelOrder {
			e.diverge("sys-log-order", fmt.Sprintf("%s stored-before-deleted=%v", t[2:], implOrder), fmt.Sprintf("stored-before-deleted=%v", modelOrder))
			return
		}
	}
	// ---- implementation only: the monitor
	hub := s.hubRec.snapshot()
	ht := make([]string, len(hub))
	for i, ev := range hub {
		ht[i] = sysEvTok(s, ev)
	}
	if strings.Join(ht, ",") != strings.Join(toks, ",") {
		e.fail("hub-listener-sees-every-event-once-in-order", fmt.Sprintf("emitted: %s; the hub listener was told: %s", strings.Join(toks, ","), strings.Join(ht, ",")), "")
	}
	nS, nD := map[string]int{}, map[string]int{}
	firstS, firstD := map[string]int{}, map[string]int{}
	for i, ev := range all {
		k := ev.box + "\x00" + ev.id
		if ev.kind == 's' {
			nS[k]++
			firstS[k] = i
		} else {
			nD[k]++
			firstD[k] = i
			if nD[k] == 1 {
				if _, ok := nS[k]; !ok {
					// deleted first: the open finding F-16c exactly when the delivery itself evicted the message (byte limit)
					known := ""
					if s.backend == "mem" && s.maxkb > 0 && ev.size > int64(s.maxkb)*1024 {
						known = "F-16c"
						e.c.H("F-16c:self-evicted-message-announced-deleted-before-stored")
					}
					e.fail("stored-before-deleted", fmt.Sprintf("listeners saw deleted(%q/%s) (size %d) before its stored event (store: %s, maxkb=%d)", ev.box, ev.id, ev.size, s.backend, s.maxkb), known)
				}
			}
		}
	}
	for k, n := range nS {
		if n != 1 {
			e.fail("stored-event-once", fmt.Sprintf("%q: %d stored events", k, n), "")
		}
	}
	for k, n := range nD {
		if n != 1 || nS[k] != 1 {
			e.fail("deleted-event-once", fmt.Sprintf("%q: %d deleted events, %d stored events", k, n, nS[k]), "")
		}
	}
	live, _ := e.liveAll()
	liveSet := map[string]bool{}
	for _, m := range live {
		liveSet[m.box+"\x00"+m.id] = true
	}
	for k := range nS {
		if liveSet[k] == (nD[k] > 0) {
			e.fail("live-is-stored-minus-deleted", fmt.Sprintf("%q: in the store=%v, deleted events=%d", k, liveSet[k], nD[k]), "")
		}
	}
	for k := range liveSet {
		if nS[k] == 0 {
			e.fail("live-is-stored-minus-deleted", fmt.Sprintf("%q is in the store but was never announced stored", k), "")
		}
	}
	evicted := len(nD) > 0
	nontrivial := s.flags["stored"] && s.flags["deleted"] && (s.flags["removed"] || evicted)
	e.c.Count(strings.Join(s.trace, "\n"), nontrivial)
	e.c.H(fmt.Sprintf("events-per-scenario:%s", bucketN(len(all))))
	if s.idx < 2 {
		e.c.Sample(map[string]interface{}{"scenario": s.idx, "backend": s.backend, "cap": s.cap, "maxkb": s.maxkb, "naming": s.naming, "trace": s.trace[:min(len(s.trace), 16)]})
	}
}
