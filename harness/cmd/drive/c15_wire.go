package main

// C15 part (d) — the last hop: what a real WebSocket client of /api/v1/monitor/… and /api/v2/monitor/… receives.
//
// The REAL handlers (rest.SetupRoutes behind the real web.Router, web.NewServer) on an httptest server, a real msghub.Hub,
// real gorilla/websocket clients for v1 and v2, with and without a mailbox filter.  The server's listener is the harness's:
// every accepted connection carries a WRITE GATE, so "the client is not reading" is placed deterministically — while the gate is
// shut the socket writer goroutine sits in its first conn.Write and the listener's queue fills to exactly the level the scenario
// wants (the kernel's socket buffers would otherwise swallow any burst) — and a write FAILURE can be injected at a chosen message.
// Nothing is judged by wall-clock: the harness waits for the writer to reach the gate (a signal from the gate), for the hub with
// VerifListenerCount / Sync (queued behind everything dispatched before), for the registration of a new monitor with a
// client ping answered by the server's reader loop (which starts after AddListener was queued), for the end of a stream with a
// marker event.  Deadlines (10 s) only turn a hang into a failure.
//
// Scenarios (from the seed): history on connect, then phases of — gated bursts of 1…99 events (the queue holds burst-1 when the
// gate opens), trickles, free bursts, — and as last phase either a gated burst above the capacity (the listener must be dropped:
// connection closed after a prefix), an injected write failure (the listener must be removed), or a marker and a client close.
//
// Oracles (implementation only; the client decodes ONE JSON value per message exactly as gorilla's ReadJSON and keeps the raw frames):
//   ws-frame-is-one-event                      every text message is exactly one JSON value
//   ws-client-sees-every-event-once-in-order   the decoded sequence is the hub's order restricted to the monitor's mailbox (v1: stored
//                                              events only), history first; or a prefix of it followed by a close when dropped
//   ws-json-shape                              the fields of a stored / deleted event, and their values
//   ws-slow-listener-served-or-dropped         a listener whose queue overflows is unregistered and its client is told (close), never left
//                                              connected and starved
//   ws-write-failure-removes-listener          a failing write ends the writer and unregisters the listener
//   ws-close-unregisters                       after the client closed, the listener is gone from the hub
// T2: the same schedule is run on the Lean models — `hub` (what the listener is offered: history ++ live events, filtered) and
// `wswire` (Model.WsWire: the frames on the wire, message by message) — and compared.

import (
	"bytes"
	"context"
	"encoding/json"
	"errors"
	"fmt"
	"io"
	"math/rand"
	"net"
	"net/http/httptest"
	"net/mail"
	"path/filepath"
	"sort"
	"strconv"
	"strings"
	"sync"
	"time"

	"github.com/gorilla/websocket"
	"github.com/inbucket/inbucket/v3/pkg/config"
	"github.com/inbucket/inbucket/v3/pkg/extension"
	"github.com/inbucket/inbucket/v3/pkg/extension/event"
	"github.com/inbucket/inbucket/v3/pkg/message"
	"github.com/inbucket/inbucket/v3/pkg/msghub"
	"github.com/inbucket/inbucket/v3/pkg/policy"
	"github.com/inbucket/inbucket/v3/pkg/rest"
	"github.com/inbucket/inbucket/v3/pkg/server/web"

	"verif/harness/internal/core"
)

const c15wWait = 10 * time.Second

// ---------------------------------------------------------------------------------------------------------
// the gate: a net.Listener whose connections can be told to hold, or to fail, their writes

type c15wGate struct {
	mu      sync.Mutex
	shut    bool
	fail    bool
	dead    bool
	open    chan struct{} // closed when the gate opens
	blocked chan struct{} // a token whenever a Write starts waiting at the gate
}

func newC15wGate() *c15wGate {
	return &c15wGate{open: make(chan struct{}), blocked: make(chan struct{}, 1)}
}

var errC15wInjected = errors.New("write refused by the harness")

// pass is called by every server-side Write
func (g *c15wGate) pass() error {
	g.mu.Lock()
	for g.shut && !g.dead {
		ch := g.open
		select {
		case g.blocked <- struct{}{}:
		default:
		}
		g.mu.Unlock()
		<-ch
		g.mu.Lock()
	}
	fail := g.fail
	g.mu.Unlock()
	if fail {
		return errC15wInjected
	}
	return nil
}

func (g *c15wGate) close() {
	g.mu.Lock()
	select {
	case <-g.blocked:
	default:
	}
	g.shut = true
	g.open = make(chan struct{})
	g.mu.Unlock()
}

func (g *c15wGate) release(failing bool) {
	g.mu.Lock()
	g.fail = failing
	if g.shut {
		g.shut = false
		close(g.open)
	}
	g.mu.Unlock()
}

func (g *c15wGate) kill() {
	g.mu.Lock()
	g.dead = true
	if g.shut {
		g.shut = false
		close(g.open)
	}
	g.mu.Unlock()
}

// waitBlocked: a server-side Write has reached the shut gate
func (g *c15wGate) waitBlocked(d time.Duration) bool {
	t := time.NewTimer(d)
	defer t.Stop()
	select {
	case <-g.blocked:
		return true
	case <-t.C:
		return false
	}
}

type c15wConn struct {
	net.Conn
	g   *c15wGate
	dmu sync.Mutex
	wd  time.Time // the write deadline the server armed last (zero = none)
}

// SetWriteDeadline / SetDeadline: remembered, so that the time a write spends AT THE GATE does not count against it.  The gate stands for
// "the client is not reading right now" for as long as the scenario needs — on a loaded machine that can be longer than the server's
// 10 s write deadline, and a write that fails for the harness's own slowness would be reported as a lost event (met once in a thorough run
// under a machine load of 20: false alarm (m) of DESIGN.md section 0).  Whether the server arms its deadlines is C03 / C13's business
// (scripted connections there); a client that really stays away is the failing-write phase of this leg.
func (c *c15wConn) SetWriteDeadline(t time.Time) error {
	c.dmu.Lock()
	c.wd = t
	c.dmu.Unlock()
	return c.Conn.SetWriteDeadline(t)
}

func (c *c15wConn) SetDeadline(t time.Time) error {
	c.dmu.Lock()
	c.wd = t
	c.dmu.Unlock()
	return c.Conn.SetDeadline(t)
}

func (c *c15wConn) Write(p []byte) (int, error) {
	t0 := time.Now()
	if err := c.g.pass(); err != nil {
		return 0, err
	}
	if held := time.Since(t0); held > 50*time.Millisecond {
		c.dmu.Lock()
		wd := c.wd
		c.dmu.Unlock()
		if !wd.IsZero() {
			_ = c.Conn.SetWriteDeadline(wd.Add(held))
		}
	}
	return c.Conn.Write(p)
}

func (c *c15wConn) Close() error {
	c.g.kill()
	return c.Conn.Close()
}

type c15wListener struct {
	net.Listener
	mu    sync.Mutex
	gates map[string]*c15wGate // by the peer's address
}

func (l *c15wListener) Accept() (net.Conn, error) {
	c, err := l.Listener.Accept()
	if err != nil {
		return nil, err
	}
	g := newC15wGate()
	l.mu.Lock()
	l.gates[c.RemoteAddr().String()] = g
	l.mu.Unlock()
	return &c15wConn{Conn: c, g: g}, nil
}

func (l *c15wListener) gate(peer string) *c15wGate {
	l.mu.Lock()
	defer l.mu.Unlock()
	g := l.gates[peer]
	delete(l.gates, peer)
	return g
}

// ---------------------------------------------------------------------------------------------------------
// the client: one JSON value per message (ReadJSON), raw frames kept

type c15wFrame struct {
	kind byte // t text, b binary, p ping, c close, e read error
	data []byte
	code int
	err  string
}

type c15wClient struct {
	conn   *websocket.Conn
	ver    int
	mu     sync.Mutex
	nvals  int // JSON values received so far, whatever their framing
	isOver bool
	frames []c15wFrame
	notify chan struct{}
	pongs  chan string
	ended  chan struct{}
}

func (cl *c15wClient) add(f c15wFrame) {
	n := 0
	if f.kind == 't' || f.kind == 'b' {
		names, _, _ := c15wValues(cl.ver, f.data)
		n = max(1, len(names))
	}
	cl.mu.Lock()
	cl.frames = append(cl.frames, f)
	cl.nvals += n
	cl.isOver = f.kind == 'c' || f.kind == 'e'
	cl.mu.Unlock()
	select {
	case cl.notify <- struct{}{}:
	default:
	}
}

func (cl *c15wClient) snapshot() []c15wFrame {
	cl.mu.Lock()
	defer cl.mu.Unlock()
	return append([]c15wFrame(nil), cl.frames...)
}

func (cl *c15wClient) readLoop() {
	defer close(cl.ended)
	cl.conn.SetPingHandler(func(m string) error {
		cl.add(c15wFrame{kind: 'p', data: []byte(m)})
		_ = cl.conn.WriteControl(websocket.PongMessage, []byte(m), time.Now().Add(time.Second))
		return nil
	})
	cl.conn.SetPongHandler(func(m string) error {
		select {
		case cl.pongs <- m:
		default:
		}
		return nil
	})
	for {
		_ = cl.conn.SetReadDeadline(time.Now().Add(60 * time.Second))
		mt, data, err := cl.conn.ReadMessage()
		if err != nil {
			var ce *websocket.CloseError
			if errors.As(err, &ce) {
				cl.add(c15wFrame{kind: 'c', code: ce.Code, data: []byte(ce.Text)})
			} else {
				cl.add(c15wFrame{kind: 'e', err: err.Error()})
			}
			return
		}
		k := byte('t')
		if mt != websocket.TextMessage {
			k = 'b'
		}
		cl.add(c15wFrame{kind: k, data: data})
	}
}

func (cl *c15wClient) progress() (values int, over bool) {
	cl.mu.Lock()
	defer cl.mu.Unlock()
	return cl.nvals, cl.isOver
}

// wait until the client holds n JSON values or its stream is over; false = deadline
func (cl *c15wClient) wait(n int) bool {
	pred := func() bool {
		v, over := cl.progress()
		return v >= n || over
	}
	deadline := time.NewTimer(c15wWait)
	defer deadline.Stop()
	for {
		if pred() {
			return true
		}
		select {
		case <-cl.notify:
		case <-cl.ended:
			return pred()
		case <-deadline.C:
			return pred()
		}
	}
}

// waitOver: until the stream is over
func (cl *c15wClient) waitOver() bool { return cl.wait(1 << 30) }

// ---------------------------------------------------------------------------------------------------------
// events

type c15wEv struct {
	del  bool
	k    int // mailbox mb<k>
	id   int
	meta event.MessageMetadata // stored events
}

func (e c15wEv) name() string {
	if e.del {
		return fmt.Sprintf("d:%d:%d", e.k, e.id)
	}
	return fmt.Sprintf("s:%d:%d", e.k, e.id)
}

// c15wValues: the JSON values of one text message, each rendered as an event name (or "?…")
func c15wValues(ver int, data []byte) (names []string, vals []json.RawMessage, trailing string) {
	dec := json.NewDecoder(bytes.NewReader(data))
	for {
		var raw json.RawMessage
		err := dec.Decode(&raw)
		if err == io.EOF {
			return
		}
		if err != nil {
			trailing = err.Error()
			return
		}
		vals = append(vals, raw)
		names = append(names, c15wName(ver, raw))
	}
}

func c15wMb(s string) string { return strings.TrimPrefix(s, "mb") }

// c15wName: what event a JSON value announces
func c15wName(ver int, raw json.RawMessage) string {
	type hdr struct {
		Mailbox *string `json:"mailbox"`
		ID      *string `json:"id"`
	}
	if ver == 1 {
		var h hdr
		if json.Unmarshal(raw, &h) != nil || h.Mailbox == nil || h.ID == nil {
			return "?" + c14Trunc(string(raw), 60)
		}
		return "s:" + c15wMb(*h.Mailbox) + ":" + *h.ID
	}
	var e struct {
		Variant    string `json:"variant"`
		Identifier *hdr   `json:"identifier"`
		Header     *hdr   `json:"header"`
	}
	if json.Unmarshal(raw, &e) != nil {
		return "?" + c14Trunc(string(raw), 60)
	}
	switch {
	case e.Variant == "message-stored" && e.Header != nil && e.Header.Mailbox != nil && e.Header.ID != nil:
		return "s:" + c15wMb(*e.Header.Mailbox) + ":" + *e.Header.ID
	case e.Variant == "message-deleted" && e.Identifier != nil && e.Identifier.Mailbox != nil && e.Identifier.ID != nil:
		return "d:" + c15wMb(*e.Identifier.Mailbox) + ":" + *e.Identifier.ID
	}
	return "?" + c14Trunc(string(raw), 60)
}

func c15wAddr(a *mail.Address) string {
	if a == nil {
		return ""
	}
	s := ""
	if a.Name != "" {
		s = a.Name + " "
	}
	if a.Address != "" {
		s += "<" + a.Address + ">"
	}
	return s
}

// c15wShape: the documented shape of one event (pkg/rest/model: JSONMonitorEventV2 / JSONMessageHeaderV1), and the values dispatched
func c15wShape(ver int, raw json.RawMessage, want c15wEv) string {
	keys := func(m map[string]json.RawMessage) string {
		var ks []string
		for k := range m {
			ks = append(ks, k)
		}
		sort.Strings(ks)
		return strings.Join(ks, ",")
	}
	header := func(raw json.RawMessage) string {
		var m map[string]json.RawMessage
		if err := json.Unmarshal(raw, &m); err != nil || m == nil {
			return "the header is not a JSON object: " + c14Trunc(string(raw), 80)
		}
		if ks := keys(m); ks != "date,from,id,mailbox,posix-millis,seen,size,subject,to" {
			return "header fields are {" + ks + "}, documented: date,from,id,mailbox,posix-millis,seen,size,subject,to"
		}
		var h struct {
			Mailbox string    `json:"mailbox"`
			ID      string    `json:"id"`
			From    string    `json:"from"`
			To      []string  `json:"to"`
			Subject string    `json:"subject"`
			Date    time.Time `json:"date"`
			Millis  int64     `json:"posix-millis"`
			Size    int64     `json:"size"`
			Seen    bool      `json:"seen"`
		}
		if err := json.Unmarshal(raw, &h); err != nil {
			return "header does not decode: " + err.Error()
		}
		w := want.meta
		var to []string
		for _, a := range w.To {
			to = append(to, c15wAddr(a))
		}
		switch {
		case h.Mailbox != w.Mailbox || h.ID != w.ID:
			return fmt.Sprintf("announces %s/%s, dispatched was %s/%s", h.Mailbox, h.ID, w.Mailbox, w.ID)
		case h.Subject != w.Subject:
			return fmt.Sprintf("subject %q, dispatched %q", h.Subject, w.Subject)
		case h.From != c15wAddr(w.From):
			return fmt.Sprintf("from %q, dispatched %q", h.From, c15wAddr(w.From))
		case strings.Join(h.To, "|") != strings.Join(to, "|") || string(m["to"]) == "null":
			return fmt.Sprintf("to %s, dispatched %q", string(m["to"]), to)
		case !h.Date.Equal(w.Date):
			return fmt.Sprintf("date %v, dispatched %v", h.Date, w.Date)
		case h.Millis != w.Date.UnixNano()/1000000:
			return fmt.Sprintf("posix-millis %d, the date is %d ms", h.Millis, w.Date.UnixNano()/1000000)
		case h.Size != w.Size:
			return fmt.Sprintf("size %d, dispatched %d", h.Size, w.Size)
		case h.Seen:
			return "seen is true for a message just stored"
		}
		return ""
	}
	if ver == 1 {
		return header(raw)
	}
	var m map[string]json.RawMessage
	if err := json.Unmarshal(raw, &m); err != nil || m == nil {
		return "not a JSON object: " + c14Trunc(string(raw), 80)
	}
	if ks := keys(m); ks != "header,identifier,variant" {
		return "event fields are {" + ks + "}, documented: header,identifier,variant"
	}
	var variant string
	_ = json.Unmarshal(m["variant"], &variant)
	if want.del {
		if variant != "message-deleted" {
			return fmt.Sprintf("variant %q for a deleted message", variant)
		}
		if string(m["header"]) != "null" {
			return "a deleted event carries a header"
		}
		var id map[string]json.RawMessage
		if err := json.Unmarshal(m["identifier"], &id); err != nil || id == nil {
			return "a deleted event without identifier object"
		}
		if ks := keys(id); ks != "id,mailbox" {
			return "identifier fields are {" + ks + "}, documented: id,mailbox"
		}
		var mb, i string
		_ = json.Unmarshal(id["mailbox"], &mb)
		_ = json.Unmarshal(id["id"], &i)
		if mb != "mb"+strconv.Itoa(want.k) || i != strconv.Itoa(want.id) {
			return fmt.Sprintf("identifier %s/%s, deleted was mb%d/%d", mb, i, want.k, want.id)
		}
		return ""
	}
	if variant != "message-stored" {
		return fmt.Sprintf("variant %q for a stored message", variant)
	}
	if string(m["identifier"]) != "null" {
		return "a stored event carries an identifier"
	}
	return header(m["header"])
}

// ---------------------------------------------------------------------------------------------------------
// the environment: one server, one hub for the whole leg

type c15wEnv struct {
	c      *core.Ctx
	r      *rand.Rand
	hub    *msghub.Hub
	ln     *c15wListener
	srv    *httptest.Server
	wsBase string
	n      int // history length
	nextID int
	// reference: the hub's window of the last n stored messages (deleted ones keep their slot)
	win  []c15wEv
	gone map[string]bool // keys deleted while in the window
	hm   *core.Model     // driver mode hub (mirrors the hub for the whole leg)
	wm   *core.Model     // driver mode wswire (one session per scenario)
	nl   int             // listener numbers used in the hub model
	hq   []string        // lines for the hub model not yet sent (it is only asked at the end of a scenario)
}

func (e *c15wEnv) hsend(line string) { e.hq = append(e.hq, line) }

func (e *c15wEnv) hask(line string) string {
	if len(e.hq) > 0 {
		e.hm.AskAll(e.hq)
		e.hq = e.hq[:0]
	}
	return e.hm.Ask(line)
}

func (e *c15wEnv) setup(work string) {
	e.n = []int{2, 5, 30}[e.r.Intn(3)]
	conf := &config.Root{MailboxNaming: config.LocalNaming, Web: config.Web{UIDir: filepath.Join(work, "no-ui"), MonitorHistory: e.n}}
	mgr := &message.StoreManager{AddrPolicy: &policy.Addressing{Config: conf}}
	e.hub = msghub.New(e.n, extension.NewHost())
	rest.SetupRoutes(web.Router.PathPrefix("/api/").Subrouter())
	web.NewServer(conf, mgr, e.hub)
	e.srv = httptest.NewUnstartedServer(web.Router)
	e.ln = &c15wListener{Listener: e.srv.Listener, gates: map[string]*c15wGate{}}
	e.srv.Listener = e.ln
	e.srv.Start()
	e.wsBase = "ws" + strings.TrimPrefix(e.srv.URL, "http")
	e.gone = map[string]bool{}
	e.hm = e.c.NewModel("hub")
	e.wm = e.c.NewModel("wswire")
	e.hm.Ask(fmt.Sprintf("new n=%d", e.n))
}

// scenario state
type c15wScn struct {
	e      *c15wEnv
	idx    int
	ver    int
	filter int // -1 = all mailboxes
	cl     *c15wClient
	gate   *c15wGate
	lnum   int
	trace  []string
	want   []c15wEv // what the monitor is due, in order (history, then live events passing its filter)
	bad    bool
	model  []string // the lines sent to the wswire model
	pool   []c15wEv // stored events that may still be deleted
	q      []string // lines for the wire model not yet sent
	judged int      // frames already judged
	seen   []string // events the client decoded so far (first JSON value of each text message)
}

func (s *c15wScn) line(format string, a ...interface{}) {
	s.trace = append(s.trace, fmt.Sprintf(format, a...))
}

func (s *c15wScn) caseLines() []string {
	t := append([]string{fmt.Sprintf("scenario %d (VERIF_SEED=%d): /api/v%d/monitor/messages%s, hub history %d", s.idx, s.e.c.Seed, s.ver, s.path(), s.e.n)}, s.trace...)
	if len(t) > 70 {
		t = append(t[:12], append([]string{"…"}, t[len(t)-56:]...)...)
	}
	return t
}

func (s *c15wScn) fail(oracle, detail string) {
	s.bad = true
	s.e.c.Fail(oracle, s.caseLines(), detail, "")
}

func (s *c15wScn) path() string {
	if s.filter < 0 {
		return ""
	}
	return "/mb" + strconv.Itoa(s.filter)
}

func (s *c15wScn) accepts(ev c15wEv) bool {
	if ev.del && s.ver == 1 {
		return false
	}
	return s.filter < 0 || s.filter == ev.k
}

// queue: a line for the wire model whose answer is not needed now
func (s *c15wScn) queue(line string) {
	s.model = append(s.model, line)
	s.q = append(s.q, line)
}

// flush: send what is queued; the answers, in order
func (s *c15wScn) flush() []string {
	if len(s.q) == 0 {
		return nil
	}
	res := s.e.wm.AskAll(s.q)
	s.q = s.q[:0]
	return res
}

func (s *c15wScn) ask(line string) string {
	s.flush()
	s.model = append(s.model, line)
	return s.e.wm.Ask(line)
}

// newEv: a fresh stored event on mailbox k
func (e *c15wEnv) newStored(k int) c15wEv {
	e.nextID++
	id := e.nextID
	r := e.r
	m := event.MessageMetadata{
		Mailbox: "mb" + strconv.Itoa(k), ID: strconv.Itoa(id),
		Subject: []string{"hello", "Re: état", "a \"quoted\" <subject>", "", "line\twith tab", "π ≈ 3.14"}[r.Intn(6)] + " " + strconv.Itoa(id),
		Date:    time.Unix(1500000000+int64(r.Intn(300000000)), int64(r.Intn(1000))*1000000).UTC(),
		Size:    int64(r.Intn(100000)),
	}
	if r.Intn(8) != 0 {
		m.From = &mail.Address{Name: []string{"", "Ann Sender", "O'Neil, J."}[r.Intn(3)], Address: fmt.Sprintf("from%d@example.org", r.Intn(50))}
	}
	for i, n := 0, r.Intn(3); i < n; i++ {
		m.To = append(m.To, &mail.Address{Name: []string{"", "Bob"}[r.Intn(2)], Address: fmt.Sprintf("mb%d@example.net", k)})
	}
	return c15wEv{k: k, id: id, meta: m}
}

// emit: one Dispatch / Delete on the real hub, mirrored in the reference window and in the hub model
func (e *c15wEnv) emit(ev c15wEv) {
	if ev.del {
		e.hub.Delete("mb"+strconv.Itoa(ev.k), strconv.Itoa(ev.id))
		e.gone[fmt.Sprintf("%d/%d", ev.k, ev.id)] = true
		e.hsend(fmt.Sprintf("delete %d %d", ev.k, ev.id))
		return
	}
	e.hub.Dispatch(ev.meta)
	e.win = append(e.win, ev)
	if len(e.win) > e.n {
		e.win = e.win[len(e.win)-e.n:]
	}
	e.hsend(fmt.Sprintf("dispatch %d %d 0", ev.k, ev.id))
}

// history: what the hub replays to a new listener now
func (e *c15wEnv) history() []c15wEv {
	var h []c15wEv
	for _, ev := range e.win {
		if !e.gone[fmt.Sprintf("%d/%d", ev.k, ev.id)] {
			h = append(h, ev)
		}
	}
	return h
}

// randomEv: a stored event on some mailbox, or the deletion of a message stored earlier in this scenario
func (s *c15wScn) randomEv(mustPass bool) c15wEv {
	r := s.e.r
	k := r.Intn(4)
	if s.filter >= 0 && (mustPass || r.Intn(3) != 0) {
		k = s.filter
	}
	if !mustPass && len(s.pool) > 0 && r.Intn(5) == 0 {
		i := r.Intn(len(s.pool))
		ev := s.pool[i]
		s.pool = append(s.pool[:i], s.pool[i+1:]...)
		return c15wEv{del: true, k: ev.k, id: ev.id}
	}
	ev := s.e.newStored(k)
	s.pool = append(s.pool, ev)
	return ev
}

// send: emit (hub, hub model, wire model) and account: `registered` = the monitor is still on the hub as far as the harness can tell
// from the code's capacity of 100
func (s *c15wScn) send(ev c15wEv, registered bool) {
	s.e.emit(ev)
	s.queue(fmt.Sprintf("offer %s %d %d", map[bool]string{false: "s", true: "d"}[ev.del], ev.k, ev.id))
	if registered && s.accepts(ev) {
		s.want = append(s.want, ev)
	}
}

func (s *c15wScn) texts(fr []c15wFrame) int {
	n := 0
	for _, f := range fr {
		if f.kind == 't' || f.kind == 'b' {
			n++
		}
	}
	return n
}

// waitValues: until the client holds n JSON values (or its stream ended)
func (s *c15wScn) waitValues(n int, what string) bool {
	ok := s.cl.wait(n)
	if v, over := s.cl.progress(); !ok || v < n {
		s.judge(false)
		if !s.bad {
			s.fail("ws-client-sees-every-event-once-in-order", fmt.Sprintf("%s: the monitor is due %d events, %d arrived within %v (stream ended: %v)", what, n, v, c15wWait, over))
		}
		return false
	}
	return true
}

func c15wShow(fr []c15wFrame, ver int) string {
	var p []string
	for _, f := range fr {
		switch f.kind {
		case 't', 'b':
			names, _, tr := c15wValues(ver, f.data)
			x := string(f.kind) + ":" + strings.Join(names, "+")
			if len(names) == 0 {
				x = string(f.kind) + ":_"
			}
			if tr != "" {
				x += "!" + tr
			}
			p = append(p, x)
		case 'p':
			// a ping carries no event and comes when the ticker says so: not part of any comparison
		case 'c':
			p = append(p, "c")
		case 'e':
			p = append(p, "e")
		}
	}
	if len(p) == 0 {
		return "_"
	}
	return strings.Join(p, "|")
}

// judge: the implementation-only oracles over everything received so far (incrementally: frames only ever get appended).  final:
// the stream is complete (everything due has been waited for).
func (s *c15wScn) judge(final bool) {
	if s.bad {
		return
	}
	fr := s.cl.snapshot()
	for i := s.judged; i < len(fr); i++ {
		f := fr[i]
		switch f.kind {
		case 'b':
			s.fail("ws-frame-is-one-event", fmt.Sprintf("message %d is a binary message (%d bytes)", i, len(f.data)))
			return
		case 't':
			names, vals, tr := c15wValues(s.ver, f.data)
			if len(vals) != 1 || tr != "" {
				d := fmt.Sprintf("message %d carries %d JSON values (%s)", i, len(vals), c14Trunc(strings.Join(names, " "), 300))
				if tr != "" {
					d += "; then: " + tr
				}
				s.fail("ws-frame-is-one-event", d+"; a client reading one value per message (ReadJSON, the web UI) sees only the first.  Frames: "+c14Trunc(c15wShow(fr, s.ver), 600))
				return
			}
			// what ReadJSON yields: the first value
			n := len(s.seen)
			nm := names[0]
			s.seen = append(s.seen, nm)
			if n >= len(s.want) {
				s.fail("ws-client-sees-every-event-once-in-order", fmt.Sprintf("event %d decoded by the client is %s; the monitor was due only %d events (duplicate, or an event of another mailbox). Due: %s", n, nm, len(s.want), c15wNames(s.want)))
				return
			}
			if nm != s.want[n].name() {
				s.fail("ws-client-sees-every-event-once-in-order", fmt.Sprintf("event %d decoded by the client is %s, the hub's order restricted to this monitor has %s there. Due: %s; decoded: %s", n, nm, s.want[n].name(), c15wNames(s.want), c14Trunc(strings.Join(s.seen, ","), 600)))
				return
			}
			if d := c15wShape(s.ver, vals[0], s.want[n]); d != "" {
				s.fail("ws-json-shape", fmt.Sprintf("event %d (%s): %s; JSON: %s", n, nm, d, c14Trunc(string(vals[0]), 400)))
				return
			}
		}
		s.judged = i + 1
	}
	if final && len(s.seen) != len(s.want) {
		s.fail("ws-client-sees-every-event-once-in-order", fmt.Sprintf("the client decoded %d events, the monitor was due %d. Due: %s; decoded: %s", len(s.seen), len(s.want), c15wNames(s.want), c14Trunc(strings.Join(s.seen, ","), 600)))
	}
}

func c15wNames(l []c15wEv) string {
	p := make([]string, len(l))
	for i, e := range l {
		p[i] = e.name()
	}
	return c14Trunc(strings.Join(p, ","), 600)
}

// listeners: the number of listeners registered on the hub, read behind everything queued so far
func (e *c15wEnv) listeners() int { return e.hub.VerifListenerCount() }

// waitListeners: poll (the removal is queued by the server's goroutines on their own time) until the count is n
func (e *c15wEnv) waitListeners(n int) bool {
	deadline := time.Now().Add(c15wWait)
	for {
		if e.listeners() == n {
			return true
		}
		if time.Now().After(deadline) {
			return false
		}
		time.Sleep(200 * time.Microsecond)
	}
}

// connect: dial, find the gate, make sure the listener is registered
func (s *c15wScn) connect() bool {
	e := s.e
	name := ""
	if s.filter >= 0 {
		mb := "mb" + strconv.Itoa(s.filter)
		name = "/" + []string{mb, strings.ToUpper(mb), mb + "@host.example", mb + "+tag@host.example"}[e.r.Intn(4)]
	}
	url := fmt.Sprintf("%s/api/v%d/monitor/messages%s", e.wsBase, s.ver, name)
	d := websocket.Dialer{HandshakeTimeout: c15wWait}
	conn, _, err := d.Dial(url, nil)
	if err != nil {
		s.fail("monitor-is-reachable", fmt.Sprintf("WebSocket %s: %v", url, err))
		return false
	}
	s.line("connect %s", url)
	s.cl = &c15wClient{conn: conn, ver: s.ver, notify: make(chan struct{}, 1), pongs: make(chan string, 4), ended: make(chan struct{})}
	s.gate = e.ln.gate(conn.LocalAddr().String())
	if s.gate == nil {
		s.fail("monitor-is-reachable", "the harness's listener has no record of the connection from "+conn.LocalAddr().String())
		return false
	}
	go s.cl.readLoop()
	// the server answers a ping from its reader loop, which starts after newMsgListenerVx queued AddListener
	tok := "reg" + strconv.Itoa(s.idx)
	if err := conn.WriteControl(websocket.PingMessage, []byte(tok), time.Now().Add(c15wWait)); err != nil {
		s.fail("monitor-is-reachable", "ping: "+err.Error())
		return false
	}
	t := time.NewTimer(c15wWait)
	defer t.Stop()
	select {
	case <-s.cl.pongs:
	case <-s.cl.ended:
		s.fail("monitor-is-reachable", "the connection ended before the server answered a ping: "+c15wShow(s.cl.snapshot(), s.ver))
		return false
	case <-t.C:
		s.fail("monitor-is-reachable", "no pong from the server's reader loop within "+c15wWait.String())
		return false
	}
	if n := e.listeners(); n != 1 {
		s.fail("monitor-is-reachable", fmt.Sprintf("%d listeners on the hub after the monitor connected (expected 1)", n))
		return false
	}
	return true
}

func (e *c15wEnv) scenario(idx int) {
	r := e.r
	s := &c15wScn{e: e, idx: idx, ver: 1 + r.Intn(2), filter: -1}
	if r.Intn(3) != 0 {
		s.ver = 2
	}
	if r.Intn(2) == 0 {
		s.filter = r.Intn(3)
	}
	// some traffic before the monitor exists: it ends up in the history (or falls out of it, or is deleted)
	for i, n := 0, r.Intn(e.n+4); i < n; i++ {
		ev := s.randomEv(false)
		e.emit(ev)
		s.line("before: %s", ev.name())
	}
	hist := e.history()
	// the models: a listener in the hub model, a fresh session of the wire model
	e.nl++
	s.lnum = e.nl
	mb := "-"
	if s.filter >= 0 {
		mb = strconv.Itoa(s.filter)
	}
	e.hsend(fmt.Sprintf("listener %d mb=%s del=%s fail=-", s.lnum, mb, map[bool]string{true: "t", false: "f"}[s.ver == 2]))
	s.ask(fmt.Sprintf("new v=%d mb=%s cap=100 var=one", s.ver, mb))
	if !s.connect() {
		if s.cl != nil {
			s.cl.conn.Close()
		}
		e.waitListeners(0)
		return
	}
	e.hsend(fmt.Sprintf("add %d", s.lnum))
	defer func() {
		e.hsend(fmt.Sprintf("remove %d", s.lnum))
		s.cl.conn.Close()
		<-s.cl.ended
		if !e.waitListeners(0) && !s.bad {
			s.fail("ws-close-unregisters", fmt.Sprintf("%d listeners still on the hub %v after the client's connection was closed", e.listeners(), c15wWait))
		}
	}()
	for _, ev := range hist {
		s.queue(fmt.Sprintf("offer s %d %d", ev.k, ev.id))
		if s.accepts(ev) {
			s.want = append(s.want, ev)
		}
	}
	s.queue("pump")
	s.line("history on connect: %s", c15wNames(hist))
	if !s.waitValues(len(s.want), "history replay") {
		return
	}
	e.c.H(fmt.Sprintf("ws:v%d filter=%v", s.ver, s.filter >= 0))

	phases := 1 + r.Intn(3)
	for p := 0; p < phases && !s.bad; p++ {
		switch x := r.Intn(10); {
		case x < 5:
			s.gatedBurst(1 + r.Intn(99))
		case x < 7:
			s.trickle(1 + r.Intn(8))
		default:
			s.freeBurst(1 + r.Intn(90))
		}
	}
	if s.bad {
		return
	}
	switch x := r.Intn(10); {
	case x < 3:
		s.overflow()
	case x < 5:
		s.writeFailure()
	default:
		s.finish()
	}
	key := strings.Join(s.trace, "\n")
	e.c.Count("ws "+key, len(s.want) > 0)
	if !s.bad && idx < 3 {
		e.c.Sample(map[string]interface{}{"ws": s.caseLines()[0], "steps": len(s.trace), "due": len(s.want), "frames": c14Trunc(c15wShow(s.cl.snapshot(), s.ver), 300)})
	}
}

// compareFrames: the text / ping / close messages received against the wire model's
func (s *c15wScn) compareFrames(what string, dropped bool) {
	if s.bad {
		return
	}
	impl := c15wShow(s.cl.snapshot(), s.ver)
	mod := s.ask("frames")
	s.e.c.Compared(1)
	if !dropped {
		if impl != mod {
			s.bad = true
			s.e.c.Diverge("ws-wire-model-frames", append(s.caseLines(), append([]string{"-- wire model:"}, s.model...)...), c14Trunc(what+": "+impl, 1500), c14Trunc(mod, 1500))
		}
		return
	}
	// dropped: the model's writer preferred the queue over `done`; the real select may take `done` at any iteration:
	// the frames are a prefix of the model's text frames that includes those written before the drop, then the close
	mf := strings.Split(strings.TrimSuffix(mod, "|c"), "|")
	imf := strings.Split(impl, "|")
	ok := len(imf) >= 1 && imf[len(imf)-1] == "c" && len(imf)-1 <= len(mf)
	for i := 0; ok && i < len(imf)-1; i++ {
		ok = imf[i] == mf[i]
	}
	if !ok {
		s.bad = true
		s.e.c.Diverge("ws-wire-model-frames", append(s.caseLines(), append([]string{"-- wire model:"}, s.model...)...), c14Trunc(what+" (a prefix of the model's text frames, then the close): "+impl, 1500), c14Trunc(mod, 1500))
	}
}

// compareHub: what the client decoded against the hub model's record of this listener
func (s *c15wScn) compareHub(prefix bool) {
	if s.bad {
		return
	}
	got := s.e.hask(fmt.Sprintf("got %d", s.lnum))
	if i := strings.Index(got, " "); i >= 0 {
		got = got[i+1:]
	}
	var mod []string
	if got != "_" {
		for _, x := range strings.Split(got, ",") {
			p := strings.Split(x, ":") // s:k:id:tag | d:k:id
			if len(p) >= 3 {
				mod = append(mod, p[0]+":"+p[1]+":"+p[2])
			}
		}
	}
	seen := s.seen
	s.e.c.Compared(1)
	ok := len(seen) == len(mod) || (prefix && len(seen) <= len(mod))
	for i := 0; ok && i < len(seen); i++ {
		ok = seen[i] == mod[i]
	}
	if !ok {
		s.bad = true
		s.e.c.Diverge("ws-hub-model-sequence", s.caseLines(), c14Trunc(strings.Join(seen, ","), 1500), c14Trunc(strings.Join(mod, ","), 1500))
	}
}

// holdWriter: shut the gate and make the writer goroutine sit in the write of one event the monitor accepts
func (s *c15wScn) holdWriter() bool {
	s.gate.close()
	ev := s.randomEv(true)
	if ev.del || !s.accepts(ev) {
		ev = s.e.newStored(map[bool]int{true: s.filter, false: 0}[s.filter >= 0])
	}
	s.send(ev, true)
	s.line("gate shut; %s", ev.name())
	if !s.gate.waitBlocked(c15wWait) {
		s.gate.release(false)
		s.fail("events-are-delivered", fmt.Sprintf("the socket writer did not attempt to write %s within %v of its dispatch", ev.name(), c15wWait))
		return false
	}
	s.queue("take")
	return true
}

// gatedBurst: k events while the client is not being written to; the queue holds k-1 (accepted ones) when the gate opens
func (s *c15wScn) gatedBurst(k int) {
	if !s.holdWriter() {
		return
	}
	var outs []string
	for i := 1; i < k; i++ {
		ev := s.randomEv(false)
		s.send(ev, true)
		outs = append(outs, ev.name())
	}
	s.line("gated burst of %d: %s", k, c14Trunc(strings.Join(outs, " "), 300))
	if n := s.e.listeners(); n != 1 {
		s.gate.release(false)
		s.fail("ws-slow-listener-served-or-dropped", fmt.Sprintf("%d listeners on the hub after a burst of %d events (at most %d in a queue of 100): the monitor was dropped below its capacity", n, k, k-1))
		return
	}
	s.e.c.H(fmt.Sprintf("ws:gated-burst queue>=50=%v", k-1 >= 50))
	s.gate.release(false)
	s.queue("pump")
	s.line("gate open")
	if s.waitValues(len(s.want), fmt.Sprintf("after a burst of %d with the writer held", k)) {
		s.judge(false)
	}
}

func (s *c15wScn) trickle(k int) {
	for i := 0; i < k && !s.bad; i++ {
		ev := s.randomEv(false)
		s.send(ev, true)
		s.queue("pump")
		s.line("trickle: %s", ev.name())
		if !s.waitValues(len(s.want), "trickle") {
			return
		}
	}
	s.e.c.H("ws:trickle")
	s.judge(false)
}

func (s *c15wScn) freeBurst(k int) {
	var outs []string
	for i := 0; i < k; i++ {
		ev := s.randomEv(false)
		s.send(ev, true)
		s.queue("pump")
		outs = append(outs, ev.name())
	}
	s.line("free burst of %d: %s", k, c14Trunc(strings.Join(outs, " "), 300))
	s.e.c.H("ws:free-burst")
	if s.waitValues(len(s.want), fmt.Sprintf("after a free burst of %d", k)) {
		s.judge(false)
	}
}

// finish: a marker event closes the stream; everything is judged; the client says goodbye
func (s *c15wScn) finish() {
	ev := s.e.newStored(map[bool]int{true: s.filter, false: 3}[s.filter >= 0])
	s.send(ev, true)
	s.queue("pump")
	s.line("marker: %s", ev.name())
	if !s.waitValues(len(s.want), "marker") {
		return
	}
	s.judge(true)
	s.compareFrames("complete stream", false)
	s.compareHub(false)
	s.e.c.H("ws:end=client-close")
	// the client closes: the server's reader loop ends, Close() unregisters
	_ = s.cl.conn.WriteControl(websocket.CloseMessage, websocket.FormatCloseMessage(websocket.CloseNormalClosure, ""), time.Now().Add(time.Second))
	if !s.cl.waitOver() {
		s.fail("ws-close-unregisters", "the server did not answer the client's close within "+c15wWait.String())
		return
	}
	if !s.e.waitListeners(0) {
		s.fail("ws-close-unregisters", fmt.Sprintf("%d listeners on the hub %v after the close handshake", s.e.listeners(), c15wWait))
	}
}

// overflow: with the writer held, more events than the queue takes: the listener must be dropped and the client told
func (s *c15wScn) overflow() {
	if !s.holdWriter() {
		return
	}
	before := len(s.want) // everything written so far plus the event in the writer's hand
	extra := 1 + s.e.r.Intn(5)
	accepted := 0
	var outs, evs []string
	s.flush()
	for accepted < 101+extra {
		ev := s.randomEv(false)
		if s.accepts(ev) {
			accepted++
		}
		// the writer holds one event, the queue takes 100 more; the 101st finds it full and the listener is dropped
		s.send(ev, accepted <= 100)
		evs = append(evs, ev.name())
	}
	for i, out := range s.flush() {
		if len(outs) < 6 || (out != "queued" && out != "skip") {
			outs = append(outs, evs[i]+"="+out)
		}
	}
	s.line("overflow: writer held, %d more accepted events (queue of 100): %s", accepted, c14Trunc(strings.Join(outs, " "), 400))
	s.e.c.H("ws:end=overflow")
	n := s.e.listeners()
	s.gate.release(false)
	s.queue("pump")
	s.queue("done ok=1")
	if n != 0 {
		s.fail("ws-slow-listener-served-or-dropped", fmt.Sprintf("%d listeners on the hub after %d events were dispatched to a monitor whose writer is stuck and whose queue takes 100: neither served nor dropped", n, accepted+1))
		return
	}
	if st := s.ask("state"); !strings.Contains(st, "reg=f") {
		s.bad = true
		s.e.c.Diverge("ws-wire-model-frames", append(s.caseLines(), s.model...), "listener dropped by the hub", st)
		return
	}
	s.line("gate open")
	if !s.cl.waitOver() {
		s.judge(false)
		if !s.bad {
			s.fail("ws-slow-listener-served-or-dropped", fmt.Sprintf("the dropped monitor's connection is still open %v after its writer could write again (frames: %s)", c15wWait, c14Trunc(c15wShow(s.cl.snapshot(), s.ver), 300)))
		}
		return
	}
	// what arrived before the close is a prefix of what was due, at least the event the writer was holding
	s.judge(false)
	fr := s.cl.snapshot()
	if !s.bad && s.texts(fr) < before {
		s.fail("ws-client-sees-every-event-once-in-order", fmt.Sprintf("the client received %d events; %d were written or in the writer's hand before the queue overflowed; last frames: %s", s.texts(fr), before, c15wShow(fr[max(0, len(fr)-4):], s.ver)))
	}
	if !s.bad && fr[len(fr)-1].kind != 'c' {
		s.fail("ws-slow-listener-served-or-dropped", "the dropped monitor's connection ended without a close message: "+fr[len(fr)-1].err)
	}
	s.compareFrames("dropped monitor", true)
	s.compareHub(true)
}

// writeFailure: the write the writer is sitting in fails: the writer ends, Close() unregisters the listener
func (s *c15wScn) writeFailure() {
	before := len(s.want)
	if !s.holdWriter() {
		return
	}
	k := s.e.r.Intn(20)
	for i := 0; i < k; i++ {
		s.send(s.randomEv(false), true)
	}
	s.line("write failure: %d more events queued, then the held write returns an error", k)
	s.e.c.H("ws:end=write-failure")
	s.want = s.want[:before] // none of them reaches the client
	s.gate.release(true)
	for _, l := range []string{"failwrite", "close f", "close f", "hubrm"} {
		s.queue(l)
	}
	if !s.e.waitListeners(0) {
		s.fail("ws-write-failure-removes-listener", fmt.Sprintf("%d listeners on the hub %v after a write on the monitor's connection failed", s.e.listeners(), c15wWait))
		return
	}
	if st := s.ask("state"); !strings.Contains(st, "reg=f") || !strings.Contains(st, "writer=exited") {
		s.bad = true
		s.e.c.Diverge("ws-wire-model-frames", append(s.caseLines(), s.model...), "listener removed after the failed write", st)
		return
	}
	s.judge(true)
	s.compareFrames("after a failed write", false)
	s.compareHub(true)
}

func c15PartD(c *core.Ctx, logs *c15LogBuf) {
	e := &c15wEnv{c: c, r: c.SubRng("c15-wire")}
	ctx, cancel := context.WithCancel(context.Background())
	defer cancel()
	logs.take()
	e.setup(c.Workdir)
	defer e.srv.Close()
	defer e.hm.Close()
	defer e.wm.Close()
	go e.hub.Start(ctx)
	if a := e.wm.Ask("new v=2 mb=- cap=100 var=one"); a != "ok" {
		c.Fail("hub-driver", []string{"ibxdrv wswire"}, "the wire model driver answers "+a, "")
		return
	}
	scenarios := c.Scale(60, 1500)
	for i := 0; i < scenarios; i++ {
		e.scenario(i)
	}
	if pl := c15PanicLines(logs.take()); len(pl) > 0 {
		c.Fail("no-panic", []string{fmt.Sprintf("%d monitor scenarios over real WebSocket connections", scenarios)}, strings.Join(pl, "\n"), "")
	}
	c.Note("wire leg: %d scenarios on the real handlers behind web.Router (hub history %d), real gorilla/websocket clients v1/v2, server-side write gate", scenarios, e.n)
}
