package main

// C02, TLS leg (hooked in through extra["C02"]): message content on the TLS paths, implementation only.
//   The same body (C02's body grammar: 8-bit bytes, NUL, bare CR / LF, dots anywhere, missing final newline, long lines) is
//   sent twice to one real stack: once in the clear, once inside TLS after STARTTLS + a real handshake; what Store.Source()
//   returns for the two copies must be byte-identical (recipient name and timestamp of the trace lines aside).  Then the
//   TLS copy is fetched twice over real POP3 sessions — RETR in the clear, RETR after STLS + handshake — and the two
//   multi-line responses must be byte-identical and decode (RFC 1939) to the stored source with CRLF line ends.
//   The plain paths are tied to the model by the other legs of C02; this leg ties the TLS paths to the plain ones.
//   Oracles: tls-content-exact, tls-retr-content-exact, tls-replies-equal-plain.

import (
	"bytes"
	"fmt"
	"io"
	"math/rand"
	"strings"
	"time"

	"github.com/inbucket/inbucket/v3/pkg/config"
	"github.com/inbucket/inbucket/v3/pkg/server/pop3"

	"verif/harness/internal/core"
)

func init() {
	prev := extra["C02"]
	extra["C02"] = func(c *core.Ctx) {
		if prev != nil {
			prev(c)
		}
		c02TlsLeg(c)
	}
	register("C02TLS", func(c *core.Ctx) {
		c.Res.Rule = "C02 TLS leg alone"
		c02TlsLeg(c)
	})
}

func c02TlsSend(st *smtpStack, viaTLS bool, rcpt string, wire []byte) ([]string, error) {
	tr := &tlsTranscript{}
	conn, done := st.serveOnPipe(tr)
	lc := newLineClient(conn)
	defer func() {
		lc.close()
		select {
		case <-done:
		case <-time.After(8 * time.Second):
		}
	}()
	var codes []string
	step := func(b []byte) error {
		if b != nil {
			if err := lc.write(b); err != nil {
				return err
			}
		}
		r, err := lc.smtpReply()
		if err != nil {
			return err
		}
		codes = append(codes, r.token())
		return nil
	}
	if err := step(nil); err != nil {
		return codes, err
	}
	if viaTLS {
		if err := step([]byte("EHLO before.example\r\n")); err != nil {
			return codes, err
		}
		if err := step([]byte("STARTTLS\r\n")); err != nil {
			return codes, err
		}
		if err := lc.handshake(); err != nil {
			return codes, err
		}
		codes = codes[:1] // compare from the greeting on
	}
	for _, l := range []string{"HELO " + c02Helo + "\r\n", "MAIL FROM:<" + c02Sender + ">\r\n", "RCPT TO:<" + rcpt + ">\r\n", "DATA\r\n"} {
		if err := step([]byte(l)); err != nil {
			return codes, err
		}
	}
	if err := step(wire); err != nil {
		return codes, err
	}
	if err := step([]byte("QUIT\r\n")); err != nil {
		return codes, err
	}
	if tr.panicked != "" {
		return codes, fmt.Errorf("session panicked: %s", tr.panicked)
	}
	return codes, nil
}

func c02TlsRetr(st *smtpStack, cert, key string, viaTLS bool, box string) ([]byte, error) {
	srv, err := pop3.NewServer(config.POP3{Domain: "verif.local", Timeout: 30 * time.Second, TLSEnabled: true, TLSCert: cert, TLSPrivKey: key}, st.store)
	if err != nil {
		return nil, err
	}
	p := &popTLS{srv: srv}
	pc := p.connect(1)
	defer pc.end()
	line := func() (string, error) {
		pc.lc.conn.SetReadDeadline(time.Now().Add(popTLSLimit))
		return pc.lc.br.ReadString('\n')
	}
	if _, err := line(); err != nil {
		return nil, err
	}
	if viaTLS {
		pc.lc.write([]byte("STLS\r\n"))
		if l, err := line(); err != nil || !strings.HasPrefix(l, "+OK") {
			return nil, fmt.Errorf("STLS: %q %v", l, err)
		}
		if err := pc.lc.handshake(); err != nil {
			return nil, err
		}
	}
	for _, cmd := range []string{"USER " + box + "\r\n", "PASS x\r\n"} {
		pc.lc.write([]byte(cmd))
		if l, err := line(); err != nil || !strings.HasPrefix(l, "+OK") {
			return nil, fmt.Errorf("%q: %q %v", cmd, l, err)
		}
	}
	pc.lc.write([]byte("RETR 1\r\n"))
	var out []byte
	for {
		l, err := line()
		out = append(out, l...)
		if err != nil {
			return out, err
		}
		if l == ".\r\n" {
			break
		}
	}
	pc.lc.write([]byte("QUIT\r\n"))
	line()
	return out, nil
}

func c02TlsLeg(c *core.Ctx) {
	cert, key, err := tlsCertFiles(c)
	if err != nil {
		c.Note("TLS leg: cannot create a certificate: %v", err)
		return
	}
	t0 := time.Now()
	n := c.Scale(150, 3000)
	core.Parallel(n, 8, func(i int) {
		r := c.SubRng(fmt.Sprintf("c02tls-%d", i))
		var body []byte
		switch {
		case i%10 == 9:
			body = genLongLineBody(r, false, 0)
		default:
			body = c02GenBody(r, 20000)
		}
		wire := dotWriterEncode(body)
		env := &smtpEnv{naming: "local", pol: randEnvCfg(rand.New(rand.NewSource(1))), maxRcpt: 10, maxBytes: 1 << 22,
			hookMail: map[string]hookAns{}, hookRcpt: map[string]hookAns{}, hookStored: map[string]inboundRepl{}, tls: true, certFile: cert, keyFile: key}
		env.pol.da, env.pol.ds = true, true
		env.pol.rej, env.pol.dis, env.pol.ro, env.pol.acc, env.pol.sto = nil, nil, nil, nil, nil
		st := tlsBuild(c, env)
		if st == nil {
			return
		}
		cas := []string{fmt.Sprintf("case %d: body of %d bytes: %q", i, len(body), clipB(body, 300))}
		plainCodes, err1 := c02TlsSend(st, false, "plainbox@example.com", wire)
		tlsCodes, err2 := c02TlsSend(st, true, "tlsbox@example.com", wire)
		c.Count(fmt.Sprintf("c02tls/%x", body), c02NonTrivial(body))
		if err1 != nil || err2 != nil {
			c.Fail("tls-replies-equal-plain", cas, fmt.Sprintf("a session did not run to its end: plain %v %v / TLS %v %v", plainCodes, err1, tlsCodes, err2), "")
			return
		}
		if strings.Join(plainCodes, " ") != strings.Join(tlsCodes, " ") {
			c.Fail("tls-replies-equal-plain", cas, fmt.Sprintf("the same transaction was answered [%s] in the clear and [%s] inside TLS", strings.Join(plainCodes, " "), strings.Join(tlsCodes, " ")), "")
			return
		}
		src := func(box string) ([]byte, bool) {
			ms, err := st.store.GetMessages(box)
			if err != nil || len(ms) != 1 {
				return nil, false
			}
			rc, err := ms[0].Source()
			if err != nil {
				return nil, false
			}
			defer rc.Close()
			b, _ := io.ReadAll(rc)
			return b, true
		}
		ps, ok1 := src("plainbox")
		ts, ok2 := src("tlsbox")
		if ok1 != ok2 {
			c.Fail("tls-content-exact", cas, fmt.Sprintf("stored in the clear: %v, stored inside TLS: %v", ok1, ok2), "")
			return
		}
		if !ok1 {
			c.H("c02tls:not-stored(" + plainCodes[len(plainCodes)-2] + ")")
			return
		}
		norm := func(b []byte, box string) []byte {
			b = tsRE.ReplaceAll(b, []byte("${1}TS\r\n"))
			return bytes.Replace(b, []byte("\r\n  for <"+box+">; "), []byte("\r\n  for <BOX>; "), 1)
		}
		c.Compared(1)
		if !bytes.Equal(norm(ps, "plainbox"), norm(ts, "tlsbox")) {
			c.Fail("tls-content-exact", cas, fmt.Sprintf("the copy delivered inside TLS differs from the copy delivered in the clear: %d vs %d bytes; TLS copy %q", len(ts), len(ps), clipB(ts, 300)), "")
			return
		}
		a, errA := c02TlsRetr(st, cert, key, false, "tlsbox")
		b, errB := c02TlsRetr(st, cert, key, true, "tlsbox")
		if errA != nil || errB != nil {
			c.Fail("tls-retr-content-exact", cas, fmt.Sprintf("RETR did not complete: clear %v / TLS %v", errA, errB), "")
			return
		}
		c.Compared(1)
		if !bytes.Equal(a, b) {
			c.Fail("tls-retr-content-exact", cas, fmt.Sprintf("RETR inside TLS returned %d bytes, RETR in the clear %d bytes; TLS: %q", len(b), len(a), clipB(b, 300)), "")
			return
		}
		if i := bytes.Index(b, []byte("\r\n")); i >= 0 {
			if dec, _, ok := refPop3Decode(b[i+2:]); !ok || !bytes.Equal(dec, refCRLF(ts)) {
				c.Fail("tls-retr-content-exact", cas, fmt.Sprintf("RETR inside TLS does not decode to the stored source with CRLF line ends (decoded ok=%v, %d bytes; source %d bytes)", ok, len(dec), len(ts)), "")
			}
		}
		c.H("c02tls:compared")
	})
	c.Note("C02 TLS leg: %.1f s", time.Since(t0).Seconds())
}
