package main

// C08 leg "the accounting is settled when the call returns" (memory store with a byte limit, implementation only).  "Evicts oldest-first and only
// what is necessary": a delivery evicts exactly while the bytes of the LIVE messages exceed the limit.  Bytes that a purge / removal has just freed are
// free when that call returns — a delivery made immediately afterwards (no pause at all) that fits beside what is left must evict nothing.  Each round:
// an old bystander message, a mailbox with many small messages, PurgeMessages (or a burst of RemoveMessage calls) of that mailbox, and in the very next
// statement a delivery sized to fit only if the freed bytes count as free.
//   evicts-only-what-is-necessary   the bystander (oldest message of the store) is still listed: nothing had to go
//   size-bound                       the live bytes do not exceed the limit

import (
	"fmt"
	"strconv"

	"github.com/inbucket/inbucket/v3/pkg/config"
	"github.com/inbucket/inbucket/v3/pkg/extension"
	"github.com/inbucket/inbucket/v3/pkg/storage"
	"github.com/inbucket/inbucket/v3/pkg/storage/mem"

	"verif/harness/internal/core"
)

func init() {
	prev := extra["C08"]
	extra["C08"] = func(c *core.Ctx) {
		if prev != nil {
			prev(c)
		}
		c08Settle(c)
	}
}

func c08Settle(c *core.Ctx) {
	r := c.SubRng("c08-settle")
	n := c.Scale(40, 600)
	for idx := 0; idx < n; idx++ {
		maxkb := 32 + r.Intn(64)
		limit := maxkb * 1024
		st, err := mem.New(config.Storage{Type: "memory", Params: map[string]string{"maxkb": strconv.Itoa(maxkb)}}, extension.NewHost())
		if err != nil {
			c.Fail("store-construction", []string{"mem maxkb=" + strconv.Itoa(maxkb)}, err.Error(), "")
			return
		}
		be := &backend{kind: "mem", st: st}
		by := 500 + r.Intn(1500)
		small := 50 + r.Intn(150)
		many := 100 + r.Intn(300)
		if by+many*small > limit*3/4 {
			many = (limit*3/4 - by) / small
		}
		trace := []string{fmt.Sprintf("# memory store, maxkb=%d (%d bytes)", maxkb, limit)}
		mk := func(k int) []byte {
			b := make([]byte, k)
			for i := range b {
				b[i] = byte('a' + i%26)
			}
			return b
		}
		bid, err := addRaw(be, storeOp{kind: "add", box: "bystander", body: mk(by), from: "a@src.net", subj: "old", date: 1700000000})
		trace = append(trace, fmt.Sprintf("AddMessage(bystander, %d bytes) -> %s %v", by, bid, err))
		var ids []string
		for k := 0; k < many; k++ {
			id, _ := addRaw(be, storeOp{kind: "add", box: "bulk", body: mk(small), from: "a@src.net", subj: "s", date: 1700000001})
			ids = append(ids, id)
		}
		trace = append(trace, fmt.Sprintf("%d x AddMessage(bulk, %d bytes)", many, small))
		// the delivery fits beside the bystander once the bulk is gone, and would not fit beside the bulk
		big := limit - by - 64 - r.Intn(200)
		if big+by+many*small <= limit {
			big = limit - by - 64
		}
		mode := "purge"
		if r.Intn(3) == 0 {
			mode = "remove-each"
		}
		c.H("settle:" + mode)
		var perr error
		if mode == "purge" {
			perr = st.PurgeMessages("bulk")
		} else {
			for _, id := range ids {
				if e := st.RemoveMessage("bulk", id); e != nil {
					perr = e
				}
			}
		}
		nid, aerr := addRaw(be, storeOp{kind: "add", box: "fresh", body: mk(big), from: "a@src.net", subj: "big", date: 1700000002}) // the very next statement
		trace = append(trace, fmt.Sprintf("%s of bulk -> %v; immediately AddMessage(fresh, %d bytes) -> %s %v", mode, perr, big, nid, aerr))
		live := 0
		st.VisitMailboxes(func(ms []storage.Message) bool {
			for _, m := range ms {
				live += int(m.Size())
			}
			return true
		})
		c.Compared(2)
		if live > limit {
			c.Fail("size-bound", trace, fmt.Sprintf("%d live bytes under a limit of %d", live, limit), "")
			return
		}
		if m, err := st.GetMessage("bystander", bid); err != nil || m == nil {
			c.Fail("evicts-only-what-is-necessary", trace, fmt.Sprintf("after the %s freed %d bytes, a delivery of %d bytes fits beside the %d-byte bystander (limit %d), yet the bystander was evicted (GetMessage: %v); live bytes now %d", mode, many*small, big, by, limit, err, live), "")
			return
		}
		if m, err := st.GetMessage("fresh", nid); aerr != nil || err != nil || m == nil {
			c.Fail("fits-then-retrievable", trace, fmt.Sprintf("the delivery that fits is not retrievable: %v %v", aerr, err), "")
			return
		}
		c.Count(fmt.Sprintf("c08-settle %d %s maxkb=%d many=%d", idx, mode, maxkb, many), true)
	}
}
