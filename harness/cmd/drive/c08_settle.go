package main

// C08 leg "the accounting is settled when the call returns" (memory store with a byte limit, implementation only).  "Evicts oldest-first and only
// what is necessary": a delivery evicts exactly while the bytes of the LIVE messages exceed the limit.  Bytes that a purge / removal has just freed are
// free when that call returns — a delivery made immediately afterwards (no pause at all) that fits beside what is left must evict nothing.  Each round:
// an old bystander message, a mailbox with many small messages, PurgeMessages (or a burst of RemoveMessage calls) of that mailbox, and in the very next
// statement a delivery sized to fit only if the freed bytes count as free.
//   evicts-only-what-is-necessary   the bystander (oldest message of the store) is still listed: nothing had to go
//   size-bound                       the live bytes do not exceed the limit

import (
	"fmt"
	"strconv"

	"github.com/inbucket/inbucket/v3/pkg/config"
	"github.com/inbucket/inbucket/v3/pkg/extension"
	"github.com/inbucket/inbucket/v3/pkg/storage"
	"github.com/inbucket/inbucket/v3/pkg/storage/mem"

	"verif/harness/internal/core"
)

func init() {
	prev := extra["C08"]
	extra["C08"] = func(c *core.Ctx) {
		if prev != nil {
			prev(c)
		}
		c08Settle(c)
	}
}

func c08Settle(c *core.Ctx) {
	r := c.SubRng("c08-settle")
	n := c.Scale(40, 600)
	for idx := 0; idx < n; idx++ {
		maxkb := 32 + r.Intn(64)
		limit := maxkb * 1024
		st, err := mem.New(config.Storage{Type: "memory", Params: map[string]string{"maxkb": strconv.Itoa(maxkb)}}, extension.NewHost())
		if err != nil {
			c.Fail("store-construction", []string{"mem maxkb=" + strconv.Itoa(maxkb)}, err.Error(), "")
			return
		}
		be := &backend{kind: "mem", st: st}
		by := 500 + r.Intn(1500)
		small := 50 + r.Intn(150)
		many := 100 + r.Intn(300)
		if by+many*small > limit*3/4 {
			many = (limit*3/4 - by) / small
		}
		trace := []string{fmt.Sprintf("# memory store, maxkb=%d (%d bytes)", maxkb, limit)}
		mk := func(k int) []byte {
			b := make([]byte, k)
			for i := range b {
				b[i] = byte('a' + i%26)
			}
			return b
		}
		bid, err := addRaw(be, storeOp{kind: "add", box: "bystander", body: mk(by), from: "a@src.net", subj: "old", date: 1700000000})
		trace = append(trace, fmt.Sprintf("AddMessage(bystander, %d bytes) -> %s %v", by, bid, err))
		var ids []string
		for k := 0; k < many; k++ {
			id, _ := addRaw(be, storeOp{kind: "add", box: "bulk", body: mk(small), from: "a@src.net", subj: "s", date: 1700000001})
			ids = append(ids, id)
		}
		trace = append(trace, fmt.Sprintf("%d x AddMessage(bulk, %d bytes)", many, small))
		// the delivery fits beside the bystander once the bulk is gone, and would not fit beside the bulk
		big := limit - by - 64 - r.Intn(200)
		if big+by+many*small <= limit {
			big = limit - by - 64
		}
		mode := "purge"
		if r.Intn(3) == 0 {
			mode = "remove-each"
		}
		c.H("settle:" + mode)
		var perr error
		if mode == "purge" {
			perr = st.PurgeMessages("bulk")
		} else {
			for _, id := range ids {
				if e := st.RemoveMessage("bulk", id); e != nil {
					perr = e
				}
			}
		}
		nid, aerr := addRaw(be, storeOp{kind: "add", box: "fresh", body: mk(big), from: "a@src.net", subj: "big", date: 1700000002}) // the very next statement
		trace = append(trace, fmt.Sprintf("%s of bulk -> %v; immediately AddMessage(fresh, %d bytes) -> %s %v", mode, perr, big, nid, aerr))
		live := 0
		st.VisitMailboxes(func(ms []storage.Message) bool {
			for _, m := range ms {
				live += int(m.Size())
			}
			return true
		})
		c.Compared(2)
		if live > limit {
			c.Fail("size-bound", trace, fmt.Sprintf("%d live bytes under a limit of %d", live, limit), "")
			return
		}
		if m, err := st.GetMessage("bystander", bid); err != nil || m == nil {
			c.Fail("evicts-only-what-is-necessary", trace, fmt.Sprintf("after the %s freed %d bytes, a delivery of %d bytes fits beside the %d-byte bystander (limit %d), yet the bystander was evicted (GetMessage: %v); live bytes now %d", mode, many*small, big, by, limit, err, live), "")
			return
		}
		if m, err := st.GetMessage("fresh", nid); aerr != nil || err != nil || m == nil {
			c.Fail("fits-then-retrievable", trace, fmt.Sprintf("the delivery that fits is not retrievable: %v %v", aerr, err), "")
			return
		}
		c.Count(fmt.Sprintf("c08-settle %d %s maxkb=%d many=%d", idx, mode, maxkb, many), true)
	}
}

// C08 leg "a big delivery among small mail" (memory store with a byte limit, implementation only).  "Stored bytes never exceed the limit and
// messages are evicted strictly oldest-first, only until the limit is met again" — also when ONE delivery has to displace hundreds of older
// messages (a large message arriving in a store full of small ones), and also for the deliveries right after it.
//   size-bound                       after every call the live bytes do not exceed the limit
//   evicts-oldest-first              what is left is a SUFFIX of the arrival order
//   evicts-only-what-is-necessary    the oldest survivor would not have fitted as well
func c08BigAmongSmall(c *core.Ctx) {
	r := c.SubRng("c08-big")
	n := c.Scale(12, 200)
	for idx := 0; idx < n; idx++ {
		maxkb := 8 + r.Intn(56)
		limit := maxkb * 1024
		st, err := mem.New(config.Storage{Type: "memory", Params: map[string]string{"maxkb": strconv.Itoa(maxkb)}}, extension.NewHost())
		if err != nil {
			c.Fail("store-construction", []string{"mem maxkb=" + strconv.Itoa(maxkb)}, err.Error(), "")
			return
		}
		be := &backend{kind: "mem", st: st}
		small := 40 + r.Intn(60)
		trace := []string{fmt.Sprintf("# memory store, maxkb=%d (%d bytes); messages of %d bytes until the store is full, then one large delivery, then small ones again", maxkb, limit, small)}
		mk := func(k int) []byte {
			b := make([]byte, k)
			for i := range b {
				b[i] = byte('a' + i%26)
			}
			return b
		}
		type ent struct {
			box, id string
			size    int
		}
		var order []ent // arrival order of everything delivered
		deliver := func(box string, size int) bool {
			id, err := addRaw(be, storeOp{kind: "add", box: box, body: mk(size), from: "a@src.net", subj: "s", date: 1700000000})
			if err != nil {
				c.Fail("store-op-works", trace, fmt.Sprintf("AddMessage(%s, %d bytes): %v", box, size, err), "")
				return false
			}
			order = append(order, ent{box, id, size})
			// what is live now
			live := map[string]int{}
			total := 0
			st.VisitMailboxes(func(ms []storage.Message) bool {
				for _, m := range ms {
					live[m.Mailbox()+"\x00"+m.ID()] = int(m.Size())
					total += int(m.Size())
				}
				return true
			})
			c.Compared(3)
			if total > limit {
				c.Fail("size-bound", trace, fmt.Sprintf("after AddMessage(%s, %d bytes) returned the store holds %d bytes in %d messages under a limit of %d", box, size, total, len(live), limit), "")
				return false
			}
			// survivors are a suffix of the arrival order
			first := -1
			for i, e := range order {
				_, ok := live[e.box+"\x00"+e.id]
				if ok && first < 0 {
					first = i
				}
				if !ok && first >= 0 {
					c.Fail("evicts-oldest-first", trace, fmt.Sprintf("after AddMessage(%s, %d bytes): delivery #%d (%s/%s) is gone although the older delivery #%d is still there", box, size, i+1, e.box, e.id, first+1), "")
					return false
				}
			}
			if first > 0 && size <= limit {
				if gone := order[first-1]; total+gone.size <= limit {
					c.Fail("evicts-only-what-is-necessary", trace, fmt.Sprintf("after AddMessage(%s, %d bytes): the store holds %d of %d bytes, delivery #%d (%d bytes) was evicted although it still fits", box, size, total, limit, first, gone.size), "")
					return false
				}
			}
			return true
		}
		ok := true
		fill := limit/small + 20 + r.Intn(50)
		for k := 0; k < fill && ok; k++ {
			ok = deliver(fmt.Sprintf("box%d", k%7), small)
		}
		trace = append(trace, fmt.Sprintf("%d x AddMessage(box0..6, %d bytes)", fill, small))
		if !ok {
			continue
		}
		big := limit/2 + r.Intn(limit/2-small) // displaces at least half of the small ones
		trace = append(trace, fmt.Sprintf("AddMessage(large, %d bytes): about %d older messages have to go", big, big/small))
		if !deliver("large", big) {
			continue
		}
		for k, m := 0, 5+r.Intn(40); k < m && ok; k++ {
			ok = deliver(fmt.Sprintf("box%d", k%7), small)
		}
		c.H("big-among-small")
		c.Count(fmt.Sprintf("c08-big %d maxkb=%d small=%d big=%d", idx, maxkb, small, big), true)
	}
}

func init() {
	prev := extra["C08"]
	extra["C08"] = func(c *core.Ctx) {
		if prev != nil {
			prev(c)
		}
		c08BigAmongSmall(c)
	}
}
