package main

// Shared SMTP harness for C01 (exactly-once storage), C03 (sequencing / atomicity / cut anywhere), C05 (policy in the
// session), C06 (size limit) and C17 (extension hooks): generated dialogues are played in lock-step against a REAL
// smtp.Server session on a net.Pipe (real StoreManager, real memory store) and, byte for byte, against the Lean model
// (mode "smtp"); reply streams and the final store dump are compared; implementation-only oracles re-derive the
// property's clauses from nothing but the bytes sent and the replies received.

import (
	"bufio"
	"bytes"
	"fmt"
	"io"
	"math/rand"
	"net"
	"os"
	"regexp"
	"sort"
	"strconv"
	"strings"
	"sync"
	"sync/atomic"
	"time"

	"github.com/inbucket/inbucket/v3/pkg/config"
	"github.com/inbucket/inbucket/v3/pkg/extension"
	"github.com/inbucket/inbucket/v3/pkg/extension/event"
	"github.com/inbucket/inbucket/v3/pkg/message"
	"github.com/inbucket/inbucket/v3/pkg/policy"
	"github.com/inbucket/inbucket/v3/pkg/server/smtp"
	"github.com/inbucket/inbucket/v3/pkg/storage"
	"github.com/inbucket/inbucket/v3/pkg/storage/mem"
	"github.com/jhillyerd/enmime/v2"

	"net/mail"

	"verif/harness/internal/core"
)

type hookAns struct {
	action string // allow deny defer
	code   int
	msg    string
}

type inboundRepl struct {
	mailboxes []string
	from      string
	to        []string
	subject   string
}

type smtpEnv struct {
	naming     string
	pol        envCfg
	maxRcpt    int
	maxBytes   int
	cap        int
	hookMail   map[string]hookAns     // by MAIL address
	hookRcpt   map[string]hookAns     // by candidate RCPT address
	hookStored map[string]inboundRepl // by subject
	failBoxes  []string               // mailboxes whose AddMessage fails
	debug      bool                   // config.SMTP.Debug (-netdebug)
	tls        bool                   // config.SMTP.TLSEnabled (with certFile / keyFile; c03_tls.go)
	force      bool                   // config.SMTP.ForceTLS
	certFile   string
	keyFile    string
}

var quietStdout sync.Once

// faultyStore fails AddMessage for chosen mailboxes (an I/O fault of the back-end); everything else passes through.
type faultyStore struct {
	storage.Store
	fail map[string]bool
}

var errInjected = fmt.Errorf("injected store fault")

func (f faultyStore) AddMessage(m storage.Message) (string, error) {
	if f.fail[m.Mailbox()] {
		return "", errInjected
	}
	return f.Store.AddMessage(m)
}

type smtpStack struct {
	env   *smtpEnv
	root  *config.Root
	ap    *policy.Addressing
	host  *extension.Host
	store storage.Store
	srv   *smtp.Server

	curLine int32 // index of the dialogue line the lock-step player has sent last (hooks run while that line is being handled)
	hookMu  sync.Mutex
	hookLog []hookCall // what the before-hooks were SHOWN, in call order
}

// hookCall: one invocation of a MAIL / RCPT before-hook with the session it was shown
type hookCall struct {
	kind string // "mail" | "rcpt"
	line int    // index of the dialogue line in flight
	from string
	to   []string
}

func (st *smtpStack) noteHook(kind string, s event.SMTPSession) {
	c := hookCall{kind: kind, line: int(atomic.LoadInt32(&st.curLine)), from: "<nil>"}
	if s.From != nil {
		c.from = s.From.Address
	}
	for _, a := range s.To {
		if a == nil {
			c.to = append(c.to, "<nil>")
		} else {
			c.to = append(c.to, a.Address)
		}
	}
	st.hookMu.Lock()
	st.hookLog = append(st.hookLog, c)
	st.hookMu.Unlock()
}

var namingByName = map[string]int{"local": 1, "full": 2, "domain": 3}

func (e *smtpEnv) build() (*smtpStack, error) {
	root, err := e.pol.load()
	if err != nil {
		return nil, err
	}
	switch e.naming {
	case "local":
		root.MailboxNaming = config.LocalNaming
	case "full":
		root.MailboxNaming = config.FullNaming
	case "domain":
		root.MailboxNaming = config.DomainNaming
	}
	root.SMTP.MaxRecipients = e.maxRcpt
	root.SMTP.MaxMessageBytes = e.maxBytes
	root.SMTP.Domain = "inbucket.test"
	root.SMTP.Timeout = 20 * time.Second
	root.SMTP.TLSEnabled = e.tls
	root.SMTP.ForceTLS = e.force
	if e.tls || e.force {
		root.SMTP.TLSCert = e.certFile
		root.SMTP.TLSPrivKey = e.keyFile
		root.SMTP.Addr = "127.0.0.1:0"
	}
	root.SMTP.Debug = e.debug // -netdebug: the session dumps its traffic (fmt.Printf); must not change a single reply or stored byte
	if e.debug {
		quietStdout.Do(func() {
			if f, err := os.OpenFile(os.DevNull, os.O_WRONLY, 0); err == nil {
				os.Stdout = f
			}
		})
	}
	host := extension.NewHost()
	stk := &smtpStack{env: e}
	if len(e.hookMail) > 0 {
		host.Events.BeforeMailFromAccepted.AddListener("verif", func(s event.SMTPSession) *event.SMTPResponse {
			stk.noteHook("mail", s)
			if s.From == nil {
				return nil
			}
			return toResp(e.hookMail, s.From.Address)
		})
	}
	if len(e.hookRcpt) > 0 {
		host.Events.BeforeRcptToAccepted.AddListener("verif", func(s event.SMTPSession) *event.SMTPResponse {
			stk.noteHook("rcpt", s)
			if len(s.To) == 0 {
				return nil
			}
			return toResp(e.hookRcpt, s.To[len(s.To)-1].Address)
		})
	}
	if len(e.hookStored) > 0 {
		host.Events.BeforeMessageStored.AddListener("verif", func(m event.InboundMessage) *event.InboundMessage {
			r, ok := e.hookStored[m.Subject]
			if !ok {
				return nil
			}
			to := make([]*mail.Address, len(r.to))
			for i, t := range r.to {
				to[i] = &mail.Address{Address: t}
			}
			return &event.InboundMessage{Mailboxes: append([]string{}, r.mailboxes...), From: &mail.Address{Address: r.from}, To: to, Subject: r.subject, Size: m.Size}
		})
	}
	st, err := mem.New(config.Storage{MailboxMsgCap: e.cap, Params: map[string]string{}}, host)
	if err != nil {
		return nil, err
	}
	ap := &policy.Addressing{Config: root}
	var mst storage.Store = st
	if len(e.failBoxes) > 0 {
		fm := map[string]bool{}
		for _, b := range e.failBoxes {
			fm[b] = true
		}
		mst = faultyStore{Store: st, fail: fm}
	}
	mgr := &message.StoreManager{AddrPolicy: ap, Store: mst, ExtHost: host}
	srv := smtp.NewServer(root.SMTP, mgr, ap, host)
	stk.root, stk.ap, stk.host, stk.store, stk.srv = root, ap, host, st, srv
	return stk, nil
}

func toResp(t map[string]hookAns, key string) *event.SMTPResponse {
	a, ok := t[key]
	if !ok {
		return nil
	}
	act := event.ActionDefer
	switch a.action {
	case "allow":
		act = event.ActionAllow
	case "deny":
		act = event.ActionDeny
	}
	return &event.SMTPResponse{Action: act, ErrorCode: a.code, ErrorMsg: a.msg}
}

type smtpReply struct {
	code  int
	lines []string // texts after the code and separator
	bad   string   // malformed reply description
}

func (r smtpReply) token() string {
	if len(r.lines) == 1 {
		return fmt.Sprintf("r%d", r.code)
	}
	return fmt.Sprintf("r%dx%d", r.code, len(r.lines))
}

var replyLineRE = regexp.MustCompile(`^(\d+)([ -])(.*)$`)

// readReplies parses server output into replies and sends them on ch; closes ch at EOF.
func readReplies(conn net.Conn, ch chan<- smtpReply) {
	defer close(ch)
	br := bufio.NewReader(conn)
	cur := smtpReply{code: -1}
	for {
		line, err := br.ReadString('\n')
		if line != "" {
			bad := ""
			if !strings.HasSuffix(line, "\r\n") {
				bad = "reply line not terminated by CRLF"
			}
			t := strings.TrimRight(line, "\r\n")
			if strings.ContainsAny(t, "\r\n") {
				bad = "CR or LF inside a reply line"
			}
			m := replyLineRE.FindStringSubmatch(t)
			if m == nil {
				ch <- smtpReply{code: -1, bad: "unparsable reply line " + strconv.Quote(line)}
				cur = smtpReply{code: -1}
			} else {
				code, _ := strconv.Atoi(m[1])
				if cur.code != -1 && cur.code != code {
					bad = "multi-line reply with differing codes"
				}
				cur.code = code
				cur.lines = append(cur.lines, m[3])
				if bad != "" {
					cur.bad = bad
				}
				if m[2] == " " {
					ch <- cur
					cur = smtpReply{code: -1}
				}
			}
		}
		if err != nil {
			return
		}
	}
}

type dialogueResult struct {
	replies   []smtpReply
	noReply   int // index of the line that got no reply within the deadline, or -1
	wedged    bool
	panicked  string
	written   []byte
	awaited   int
	dump      string
	dumpMsgs  []dumpMsg
	lineReply []int // for each input line index: index into replies of the reply it was answered with (-1 = none awaited)
}

type dumpMsg struct {
	mailbox, from, subject string
	to                     []string
	size                   int
	source                 []byte
}

// play sends `lines` in lock-step (a reply is awaited after every command line and after the line ".\r\n" that ends a
// data block), cutting the connection after `cut` bytes (cut < 0: send everything).  awaitLast=false closes right after the
// last byte without waiting for its reply.
func (st *smtpStack) play(lines [][]byte, cut int, awaitLast bool) dialogueResult {
	res := dialogueResult{noReply: -1}
	client, server := net.Pipe()
	done := make(chan struct{})
	go func() {
		defer close(done)
		defer func() {
			if r := recover(); r != nil {
				res.panicked = fmt.Sprint(r)
				server.Close()
			}
		}()
		st.srv.VerifServe(1, server)
	}()
	ch := make(chan smtpReply, 64)
	go readReplies(client, ch)
	await := func() bool {
		select {
		case r, ok := <-ch:
			if !ok {
				return false
			}
			res.replies = append(res.replies, r)
			return true
		case <-time.After(5 * time.Second):
			return false
		}
	}
	if !await() { // greeting
		res.noReply = 0
	}
	res.awaited = 1
	inData := false
	total := 0
	for _, l := range lines {
		total += len(l)
	}
	sent := 0
	res.lineReply = make([]int, len(lines))
	for i := range res.lineReply {
		res.lineReply[i] = -1
	}
	for i, l := range lines {
		if res.noReply >= 0 {
			break
		}
		atomic.StoreInt32(&st.curLine, int32(i))
		chunk := l
		last := false
		if cut >= 0 && sent+len(l) >= cut {
			chunk = l[:cut-sent]
			last = true
		}
		if len(chunk) > 0 {
			client.SetWriteDeadline(time.Now().Add(5 * time.Second))
			if _, err := client.Write(chunk); err != nil {
				break
			}
			res.written = append(res.written, chunk...)
			sent += len(chunk)
		}
		complete := len(chunk) == len(l) && bytes.HasSuffix(l, []byte("\n"))
		if last && !(complete && awaitLast) {
			break
		}
		if !complete {
			break
		}
		expect := false
		if !inData {
			expect = true
		} else if string(l) == ".\r\n" || string(l) == ".\n" {
			expect = true
		}
		if expect {
			if i == len(lines)-1 && !awaitLast {
				break
			}
			if !await() {
				res.noReply = i
				break
			}
			res.awaited++
			res.lineReply[i] = len(res.replies) - 1
			r := res.replies[len(res.replies)-1]
			if !inData && r.code == 354 {
				inData = true
			} else if inData {
				inData = false
			}
		}
		if last {
			break
		}
	}
	client.Close()
	select {
	case <-done:
	case <-time.After(8 * time.Second):
		res.wedged = true
	}
	// drain whatever the server still sent before it noticed the close
	for r := range ch {
		res.replies = append(res.replies, r)
	}
	res.dump, res.dumpMsgs = st.dumpStore()
	return res
}

// playPipelined writes the whole dialogue at once (as a pipelining client does) and only then reads; the connection is
// closed once the server has been silent for a while after everything was written.
func (st *smtpStack) playPipelined(lines [][]byte) dialogueResult {
	res := dialogueResult{noReply: -1}
	client, server := net.Pipe()
	done := make(chan struct{})
	go func() {
		defer close(done)
		defer func() {
			if r := recover(); r != nil {
				res.panicked = fmt.Sprint(r)
				server.Close()
			}
		}()
		st.srv.VerifServe(1, server)
	}()
	ch := make(chan smtpReply, 4096)
	go readReplies(client, ch)
	var all []byte
	for _, l := range lines {
		all = append(all, l...)
	}
	wrote := make(chan struct{})
	go func() {
		client.SetWriteDeadline(time.Now().Add(10 * time.Second))
		client.Write(all)
		close(wrote)
	}()
	res.written = all
	idle := 3 * time.Second // only reached when the server neither answers nor ends: pipelined dialogues end with QUIT
	if atomic.LoadInt32(&pipeStalls) > 3 {
		idle = 300 * time.Millisecond
	}
	written := false
loop:
	for {
		select {
		case r, ok := <-ch:
			if !ok {
				break loop
			}
			res.replies = append(res.replies, r)
		case <-wrote:
			written = true
			wrote = nil
		case <-done:
			break loop
		case <-time.After(idle):
			if written {
				atomic.AddInt32(&pipeStalls, 1)
				break loop
			}
		}
	}
	client.Close()
	select {
	case <-done:
	case <-time.After(8 * time.Second):
		res.wedged = true
	}
	for r := range ch {
		res.replies = append(res.replies, r)
	}
	res.awaited = len(res.replies)
	res.lineReply = make([]int, len(lines))
	for i := range res.lineReply {
		res.lineReply[i] = -1
	}
	res.dump, res.dumpMsgs = st.dumpStore()
	return res
}

var pipeStalls int32

var tsRE = regexp.MustCompile(`(\r\n  for <[^\r\n]*?>; )[^\r\n]*\r\n`)

// dumpStore lists every mailbox (sorted by name) with its messages in order, in the driver's encoding, with the
// Received timestamp masked, dates zeroed and ids replaced by positions (the store is fresh and nothing was removed).
func (st *smtpStack) dumpStore() (string, []dumpMsg) {
	type box struct {
		key string
		enc string
	}
	boxes := []box{}
	var all []dumpMsg
	st.store.VisitMailboxes(func(ms []storage.Message) bool {
		if len(ms) == 0 {
			return true
		}
		parts := []string{}
		for _, m := range ms {
			src := []byte{}
			if r, err := m.Source(); err == nil {
				src, _ = io.ReadAll(r)
				r.Close()
			}
			masked := tsRE.ReplaceAll(src, []byte("${1}TS\r\n"))
			from := ""
			if m.From() != nil {
				from = m.From().Address
			}
			tos := []string{}
			tor := []string{}
			for _, t := range m.To() {
				tos = append(tos, core.HexS(t.Address))
				tor = append(tor, t.Address)
			}
			id, _ := strconv.Atoi(m.ID())
			parts = append(parts, fmt.Sprintf("%s/%d/0/%d/%s/%s/%s/0/%s", core.HexS(m.Mailbox()), id, len(masked), core.HexS(from), strings.Join(tos, ","), core.HexS(m.Subject()), core.Hex(masked)))
			all = append(all, dumpMsg{mailbox: m.Mailbox(), from: from, subject: m.Subject(), to: tor, size: int(m.Size()), source: src})
		}
		boxes = append(boxes, box{core.HexS(ms[0].Mailbox()), "[" + strings.Join(parts, "|") + "]"})
		return true
	})
	sort.Slice(boxes, func(i, j int) bool { return boxes[i].key < boxes[j].key })
	p := make([]string, len(boxes))
	for i, b := range boxes {
		p[i] = b.enc
	}
	return strings.Join(p, "&"), all
}

// ---------------------------------------------------------------------------------------------------------------
// model line

func hookTable(t map[string]hookAns) string {
	if len(t) == 0 {
		return "-"
	}
	keys := []string{}
	for k := range t {
		keys = append(keys, k)
	}
	sort.Strings(keys)
	p := []string{}
	for _, k := range keys {
		a := t[k]
		p = append(p, fmt.Sprintf("%s~%s~%d~%s", core.HexS(k), a.action, a.code, core.HexS(a.msg)))
	}
	return strings.Join(p, ";")
}

// linesOfStream splits exactly as textproto.ReadLine does (a partial last line is a line).
func linesOfStream(b []byte) []string {
	res := []string{}
	for len(b) > 0 {
		i := bytes.IndexByte(b, '\n')
		if i < 0 {
			res = append(res, string(b))
			break
		}
		l := b[:i]
		if len(l) > 0 && l[len(l)-1] == '\r' {
			l = l[:len(l)-1]
		}
		res = append(res, string(l))
		b = b[i+1:]
	}
	return res
}

// harnessParseCmd: independent re-implementation of the command split, for oracle tables and the oracles.
func harnessParseCmd(line string) (cmd, arg string, ok bool) {
	line = strings.TrimRight(line, "\r\n")
	l := strings.IndexByte(line, ' ')
	if l == -1 {
		l = len(line)
	}
	if l < 4 {
		return "", "", false
	}
	cmd = strings.ToUpper(line[:l])
	if l < len(line) {
		arg = strings.Trim(line[l+1:], " ")
	}
	return cmd, arg, true
}

func (st *smtpStack) modelLine(stream []byte, blocks [][]byte, budget string) string {
	e := st.env
	// The MAIL expressions are no longer oracle fields: the driver computes fromRegex / parseArgs with the model's own recognisers
	// (Ibx.Model.MailArgs; their tie is c06_args.go).  Go's match is still consulted here, for one thing only: which strings the address
	// model may hand to net.ParseIP (the `ip=` oracle table) — an address the two sides read differently shows up as a reply divergence.
	ipParts := map[string]bool{}
	seenRe := map[string]bool{}
	addIP := func(a string) {
		t := ipTable(a)
		if t != "ip=-" {
			for _, x := range strings.Split(strings.TrimPrefix(t, "ip="), ",") {
				ipParts[x] = true
			}
		}
	}
	for _, l := range linesOfStream(stream) {
		cmd, arg, ok := harnessParseCmd(l)
		if !ok {
			continue
		}
		if cmd == "MAIL" && !seenRe[arg] {
			seenRe[arg] = true
			if m := smtp.VerifFromRegex().FindStringSubmatch(arg); m != nil {
				addIP(m[1])
			}
		}
		if cmd == "RCPT" && len(arg) >= 3 {
			addIP(strings.Trim(arg[3:], "<> "))
		}
	}
	hdrEntries := []string{}
	seenBlk := map[string]bool{}
	for _, b := range blocks {
		k := core.Hex(b)
		if seenBlk[k] {
			continue
		}
		seenBlk[k] = true
		hdrEntries = append(hdrEntries, k+"~"+hdrOracle(b))
	}
	hs := []string{}
	subjKeys := []string{}
	for k := range e.hookStored {
		subjKeys = append(subjKeys, k)
	}
	sort.Strings(subjKeys)
	for _, k := range subjKeys {
		r := e.hookStored[k]
		hs = append(hs, fmt.Sprintf("%s~%s~%s~%s~%s", core.HexS(k), core.HexList(r.mailboxes), core.HexS(r.from), core.HexList(r.to), core.HexS(r.subject)))
	}
	ips := []string{}
	for k := range ipParts {
		ips = append(ips, k)
	}
	sort.Strings(ips)
	join := func(l []string, sep string) string {
		if len(l) == 0 {
			return "-"
		}
		return strings.Join(l, sep)
	}
	return fmt.Sprintf("run naming=%s %s maxrcpt=%d maxbytes=%d cap=%d domain=%s rhost=%s ts=%s ip=%s hdr=%s hookmail=%s hookrcpt=%s hookstored=%s fail=%s budget=%s inp=%s",
		e.naming, e.pol.line(), e.maxRcpt, e.maxBytes, e.cap, core.HexS("inbucket.test"), core.HexS("pipe"), core.HexS("TS"), smtpIPField(ips),
		join(hdrEntries, ";"), hookTable(e.hookMail), hookTable(e.hookRcpt), join(hs, ";"), core.HexList(e.failBoxes), budget, core.Hex(stream))
}

// smtpIPField: the `ip=` field of a `run` line.  The SMTP model answers net.ParseIP with its own model (Ibx/Model/ParseIP.lean, tied to
// the real function by the parseip leg, c04_parseip.go); VERIF_IP_ORACLE=1 ships Go's answers for the strings of this dialogue instead.
func smtpIPField(ips []string) string {
	if os.Getenv("VERIF_IP_ORACLE") == "1" {
		if len(ips) == 0 {
			return "-"
		}
		return strings.Join(ips, ",")
	}
	return "model"
}

// hdrOracle: what enmime makes of the block's headers, through the same calls Deliver makes.
func hdrOracle(block []byte) string {
	h, err := enmime.DecodeHeaders(block)
	if err != nil {
		return "err"
	}
	from := "none"
	if l, err := enmime.ParseAddressList(h.Get("From")); err == nil && len(l) > 0 {
		from = core.HexS(l[0].Address)
	}
	to := "err"
	if l, err := enmime.ParseAddressList(h.Get("To")); err == nil {
		p := []string{}
		for _, a := range l {
			p = append(p, a.Address)
		}
		to = core.HexList(p)
	}
	return from + "~" + to + "~" + core.HexS(h.Get("Subject"))
}

// decodeBlocks: the data blocks of a byte stream as the stdlib dot reader sees them, given which lines were in data mode.
func dotDecode(wire []byte) ([]byte, bool) {
	// minimal independent decoder for harness-generated (clean CRLF, dot-stuffed) blocks
	var out []byte
	lines := bytes.SplitAfter(wire, []byte("\n"))
	for _, l := range lines {
		if len(l) == 0 {
			continue
		}
		t := bytes.TrimRight(l, "\r\n")
		if string(t) == "." && bytes.HasSuffix(l, []byte("\n")) {
			return out, true
		}
		if !bytes.HasSuffix(l, []byte("\n")) {
			return nil, false
		}
		if len(t) > 0 && t[0] == '.' {
			t = t[1:]
		}
		out = append(out, t...)
		out = append(out, '\n')
	}
	return nil, false
}

// ---------------------------------------------------------------------------------------------------------------
// dialogue generation

type smtpDialogue struct {
	lines  [][]byte
	blocks [][]byte // decoded data blocks contained (for the hdr oracle)
	nTrans int
}

var smtpLocals = []string{"alice", "Bob", "carol+tag", "dave.x", "\"quoted user\"", "eve\\@x", "x", "+onlyext", "a..b", ".lead", "trail.", "MiXeD"}

func (g *smtpGen) domainPool() []string {
	p := []string{"example.com", "Example.COM", "other.org", "sub.example.com", "[127.0.0.1]", "[IPv6:2001:db8::1]", "bad..dom", "-x.com",
		"example.com.", "Sub.Example.Com.", strings.Repeat("a234567890.", 12) + "example"} // root-dot spellings; a 127-byte domain
	for _, l := range [][]string{g.env.pol.acc, g.env.pol.rej, g.env.pol.sto, g.env.pol.dis} {
		for _, d := range l {
			p = append(p, d, recase(g.r, d))
			p = append(p, globInstances(d)...) // nothing unless the entry has '*' / '?' (profiles with wildLists): domains it would name as a pattern
		}
	}
	for _, pat := range g.env.pol.ro {
		p = append(p, strings.NewReplacer("*", "sub.q", "?", "z").Replace(pat))
	}
	return p
}

type smtpGen struct {
	r       *rand.Rand
	env     *smtpEnv
	subjN   int
	errRate int // percent of deliberately wrong steps
	bigBody bool
	favour  string // when set, most recipients are this address (histories that keep coming back to one mailbox)
}

// recipients written without a domain part (RFC 5321 knows exactly one: the reserved "postmaster"), and with a source route
var smtpBareLocals = []string{"postmaster", "Postmaster", "POSTMASTER", "abuse", "alice", "root", "MAILER-DAEMON"}

func (g *smtpGen) addr() string {
	if g.favour != "" && g.r.Intn(100) < 60 {
		return g.favour
	}
	d := g.domainPool()
	if x := g.r.Intn(100); x < 5 {
		return smtpBareLocals[g.r.Intn(len(smtpBareLocals))]
	} else if x < 8 {
		return "@relay.example:" + smtpLocals[g.r.Intn(5)] + "@" + d[g.r.Intn(4)]
	}
	if g.r.Intn(100) < 6 {
		// very long addresses that agree in their first 140 bytes and differ behind them (full / domain naming: the mailbox NAME is that long)
		return strings.Repeat("l", 60) + "@" + strings.Repeat("d234567890.", 7) + []string{"one", "two", "One"}[g.r.Intn(3)] + ".example"
	}
	l := smtpLocals[g.r.Intn(len(smtpLocals))]
	if g.r.Intn(100) < 70 {
		l = smtpLocals[g.r.Intn(5)] // mostly well-formed local parts
	}
	dom := d[g.r.Intn(len(d))]
	if g.r.Intn(100) < 50 {
		dom = d[g.r.Intn(4)]
	}
	return l + "@" + dom
}

func caseMix(r *rand.Rand, s string) string {
	switch r.Intn(4) {
	case 0:
		return strings.ToLower(s)
	case 1:
		return recase(r, s)
	}
	return s
}

func (g *smtpGen) body() (wire [][]byte, decoded []byte) {
	g.subjN++
	subj := fmt.Sprintf("subj-%d-%d", g.r.Intn(1000), g.subjN)
	hdrs := []string{"Subject: " + subj}
	if g.r.Intn(3) > 0 {
		hdrs = append(hdrs, "From: Sender Name <hdrfrom@src.example>")
	} else if g.r.Intn(2) == 0 {
		// From headers enmime answers with no address and no error, several addresses, an error, encoded words
		hdrs = append(hdrs, []string{"From: undisclosed-senders:;", "From: a@x.example, B <b@y.example>", "From: ", "From: <>", "From: =?utf-8?q?J=C3=B6rg?= <j@x.example>",
			"From: Team: one@t.example, two@t.example;", "From: (comment only)", "From: empty:;, other:;"}[g.r.Intn(8)])
	}
	switch g.r.Intn(5) {
	case 0:
		hdrs = append(hdrs, "To: one@to.example, Two <two@to.example>")
	case 1:
		hdrs = append(hdrs, "To: not an address list <<")
	case 2:
		hdrs = append(hdrs, []string{"To: undisclosed-recipients:;", "To: ", "To: list: a@l.example;, b@l.example", "To: =?utf-8?b?w6k=?= <e@to.example>"}[g.r.Intn(4)])
	}
	// headers real mail carries and the property never mentions: whatever they say, an acknowledged message is stored.  Message-IDs repeat
	// (a re-sent message, a mailing-list copy for another recipient), dates lie, trace and list headers come from the client
	if g.r.Intn(2) == 0 {
		extra := []string{
			"Message-ID: " + []string{"<same-1@client.example>", "<same-2@client.example>", fmt.Sprintf("<m%d.%d@client.example>", g.subjN, g.r.Intn(1000))}[g.r.Intn(3)],
			"Date: " + []string{"Mon, 02 Jan 2006 15:04:05 -0700", "Thu, 01 Jan 1970 00:00:00 +0000", "Fri, 31 Dec 9999 23:59:59 +0000", "not a date", "Tue, 30 Sep 2025 10:00:00 +0200"}[g.r.Intn(5)],
			"MIME-Version: 1.0", "Content-Type: text/plain; charset=utf-8", "Content-Transfer-Encoding: 8bit", "X-Mailer: verif",
			"Reply-To: reply@src.example", "Cc: cc@to.example", "Bcc: bcc@to.example", "Return-Path: <forged@src.example>",
			"Received: from elsewhere (elsewhere [192.0.2.1]) by relay.example; Mon, 02 Jan 2006 15:04:05 -0700",
			"Precedence: " + []string{"bulk", "list", "junk"}[g.r.Intn(3)], "Auto-Submitted: auto-generated", "X-Spam-Flag: YES", "X-Spam-Status: Yes, score=99",
			"List-Id: <list.example>", "List-Unsubscribe: <mailto:u@list.example>", "In-Reply-To: <same-1@client.example>", "References: <same-1@client.example> <same-2@client.example>",
			"X-Priority: 1", "Importance: high", "Sender: sender@src.example", "Resent-Message-ID: <same-1@client.example>", "Content-Length: 3", "Lines: 1",
		}
		g.r.Shuffle(len(extra[1:]), func(i, j int) { extra[1+i], extra[1+j] = extra[1+j], extra[1+i] })
		extra = extra[1:] // the Message-ID is drawn on its own, below
		k := 1 + g.r.Intn(5)
		if g.r.Intn(3) == 0 {
			hdrs = append(extra[:k], hdrs...) // before Subject / From
		} else {
			hdrs = append(hdrs, extra[:k]...)
		}
	}
	if g.r.Intn(2) == 0 { // every other message carries a Message-ID, mostly one that comes again within the dialogue
		id := []string{"<same-1@client.example>", "<same-1@client.example>", "<same-2@client.example>", fmt.Sprintf("<m%d.%d@client.example>", g.subjN, g.r.Intn(1000))}[g.r.Intn(4)]
		hdrs = append(hdrs, []string{"Message-ID: ", "Message-Id: ", "message-id:"}[g.r.Intn(3)]+id)
	}
	if g.r.Intn(25) == 0 {
		hdrs = []string{"Subject " + subj + " no colon", " continuation without header"}
	}
	lines := append(hdrs, "")
	n := g.r.Intn(6)
	if g.bigBody {
		n = g.r.Intn(60)
	}
	for i := 0; i < n; i++ {
		switch g.r.Intn(8) {
		case 0:
			lines = append(lines, ".leading dot")
		case 1:
			lines = append(lines, "")
		case 2:
			lines = append(lines, "..")
		case 3:
			lines = append(lines, strings.Repeat("x", g.r.Intn(300)))
		default:
			lines = append(lines, fmt.Sprintf("body line %d \x00\xff", i))
		}
	}
	if g.bigBody && g.r.Intn(3) == 0 {
		// land exactly on / next to the size limit
		cur := 0
		for _, l := range lines {
			cur += len(l) + 1
		}
		target := g.env.maxBytes + g.r.Intn(3) - 1
		if target > cur {
			lines = append(lines, strings.Repeat("p", target-cur-1))
		}
	}
	for _, l := range lines {
		w := l
		if strings.HasPrefix(l, ".") {
			w = "." + l
		}
		wire = append(wire, []byte(w+"\r\n"))
		decoded = append(decoded, []byte(l+"\n")...)
	}
	wire = append(wire, []byte(".\r\n"))
	return
}

var junkLines = []string{"", "FOO", "XYZZY arg", "\x00\x01\x02\xff\xfe", "MAIL", "RCPT", "RCPT TO:", "RCPT TO:<>", "MAIL FROM:", "MAIL FROM:<a@b> SIZE=abc", "MAIL FROM:<a@b> SIZE=99999999999",
	"DATA now", "HELO", "EHLO", "STARTTLS", "AUTH PLAIN", "AUTH PLAIN a b", "AUTH PLAIN dGVzdA==", "AUTH CRAM-MD5", "VRFY x", "EXPN l", "HELP", "TURN", "SEND FROM:<a@b>", "NOOP", "noop extra",
	"RSET", "rset", "QU", "  ", "MAIL FROM:<>", "MAIL FROM:<a@b> BODY=8BITMIME", "MAIL FROM: <a@b>", "mail from:<A@B.C> size=10", "R\xc5\xbfET"}

func (g *smtpGen) wrong() bool { return g.r.Intn(100) < g.errRate }

func (g *smtpGen) dialogue() smtpDialogue {
	var d smtpDialogue
	add := func(s string) { d.lines = append(d.lines, []byte(s+"\r\n")) }
	junk := func() {
		l := junkLines[g.r.Intn(len(junkLines))]
		if g.r.Intn(30) == 0 {
			l = strings.Repeat("A", 5000+g.r.Intn(70000))
		}
		add(l)
	}
	if g.wrong() {
		junk()
	}
	if !g.wrong() {
		helo := "client.example"
		if g.r.Intn(8) == 0 {
			// a long HELO name makes the generated trace headers long (several hundred bytes)
			helo = strings.Repeat("h", 300+g.r.Intn(400)) + ".example"
		}
		if g.r.Intn(2) == 0 {
			add(caseMix(g.r, "HELO") + " " + helo)
		} else {
			add(caseMix(g.r, "EHLO") + " " + helo)
		}
	}
	if g.r.Intn(12) == 0 {
		add("AUTH LOGIN")
		add("dXNlcg==")
		add("cGFzcw==")
	}
	nt := 1 + g.r.Intn(3)
	for t := 0; t < nt; t++ {
		d.nTrans++
		if g.wrong() {
			junk()
		}
		if !g.wrong() {
			from := g.addr()
			if g.r.Intn(10) == 0 {
				from = ""
			}
			m := caseMix(g.r, "MAIL") + " " + caseMix(g.r, "FROM:") + "<" + from + ">"
			switch g.r.Intn(8) {
			case 0:
				m += fmt.Sprintf(" SIZE=%d", g.r.Intn(2*g.env.maxBytes+10))
			case 1:
				m += " BODY=8BITMIME SIZE=10 size=" + strconv.Itoa(g.env.maxBytes+1)
			case 2:
				m += " AUTH=<>"
			}
			add(m)
		}
		nr := 1 + g.r.Intn(4)
		if g.r.Intn(6) == 0 {
			nr = g.env.maxRcpt + 2
		}
		if nr > 12 {
			nr = 12
		}
		var rcpts []string
		for i := 0; i < nr; i++ {
			if g.wrong() {
				junk()
				continue
			}
			a := g.addr()
			if len(rcpts) > 0 && g.r.Intn(6) == 0 {
				a = rcpts[g.r.Intn(len(rcpts))] // duplicate recipient
			}
			rcpts = append(rcpts, a)
			add(caseMix(g.r, "RCPT") + " " + caseMix(g.r, "TO:") + "<" + a + ">")
		}
		switch {
		case g.wrong() && g.r.Intn(2) == 0:
			add("RSET")
			continue
		case g.wrong():
			add("EHLO again.example")
			continue
		}
		add(caseMix(g.r, "DATA"))
		wire, dec := g.body()
		d.lines = append(d.lines, wire...)
		d.blocks = append(d.blocks, dec)
	}
	if g.r.Intn(3) > 0 {
		add("QUIT")
	}
	return d
}

// ---------------------------------------------------------------------------------------------------------------
// running and comparing one dialogue

type smtpProfile struct {
	name      string
	n         [2]int
	errRate   int
	cuts      int // number of cut offsets tried per dialogue (0 = none; -1 = every offset)
	hooks     bool
	smallMax  bool
	bigBody   bool
	withCap   bool
	namings   []string
	noHdrErrs bool
	pipelined bool // half of the dialogues are sent in one write (pipelining client)
	faults    bool // inject AddMessage failures for some destination mailboxes
	wildLists bool // the accept / reject / store / discard lists may hold entries with '*' and '?' (literals there: C05)
}

func randHook(r *rand.Rand) hookAns {
	switch r.Intn(3) {
	case 0:
		return hookAns{"allow", 0, ""}
	case 1:
		return hookAns{"deny", []int{550, 551, 5, 999, 421}[r.Intn(5)], []string{"go away", "Denied by policy!", "", "x y  z", "mailbox is at 100% of its quota", "%s %d %v%%", "50%",
			"550 is what you get", "5500 messages are already queued", "551", "55", "421 4.7.0 try later", "250 OK", "999-continued", " leading blank", "trailing blank ",
			"a text of more than five hundred octets " + strings.Repeat("0123456789 ", 60) + "end", "caf\xc3\xa9 \xe2\x82\xac " + strings.Repeat("\xc3\xa9", 300)}[r.Intn(18)]}
	}
	return hookAns{"defer", 0, ""}
}

func (p smtpProfile) randEnv(r *rand.Rand) *smtpEnv {
	pol := randEnvCfg
	if p.wildLists {
		pol = randEnvCfgW
	}
	e := &smtpEnv{naming: p.namings[r.Intn(len(p.namings))], pol: pol(r), maxRcpt: []int{1, 2, 3, 5, 200, 0}[r.Intn(6)], maxBytes: 100000, cap: 0,
		hookMail: map[string]hookAns{}, hookRcpt: map[string]hookAns{}, hookStored: map[string]inboundRepl{}}
	if r.Intn(100) < 65 {
		e.pol.da = true
	}
	if r.Intn(100) < 65 {
		e.pol.ds = true
	}
	if r.Intn(100) < 60 {
		e.pol.ro = nil
	}
	if p.smallMax {
		e.maxBytes = []int{0, 50, 200, 600, 5000}[r.Intn(5)]
	}
	if p.withCap {
		e.cap = []int{0, 1, 2}[r.Intn(3)]
	}
	e.debug = r.Intn(7) == 0
	return e
}

func stripStore(tokens []string) []string {
	res := []string{}
	for _, t := range tokens {
		if strings.HasPrefix(t, "r") {
			res = append(res, t)
		}
	}
	return res
}

func fieldOf(ans, name string) string {
	i := strings.Index(ans, " "+name+"=")
	if i < 0 {
		return "?"
	}
	rest := ans[i+len(name)+2:]
	if j := strings.Index(rest, " "); j >= 0 {
		return rest[:j]
	}
	return rest
}

type smtpCase struct {
	env       *smtpEnv
	d         smtpDialogue
	cut       int
	await     bool
	stream    []byte
	pipelined bool
}

func (sc smtpCase) describe() []string {
	c := []string{fmt.Sprintf("naming=%s maxrcpt=%d maxbytes=%d cap=%d cut=%d await=%v pipelined=%v failing-mailboxes=%q", sc.env.naming, sc.env.maxRcpt, sc.env.maxBytes, sc.env.cap, sc.cut, sc.await, sc.pipelined, sc.env.failBoxes),
		fmt.Sprintf("policy=%+v", sc.env.pol), fmt.Sprintf("hookmail=%v hookrcpt=%v hookstored=%v", sc.env.hookMail, sc.env.hookRcpt, sc.env.hookStored)}
	for _, l := range linesOfStream(sc.stream) {
		if len(l) > 200 {
			l = l[:200] + fmt.Sprintf("...(%d bytes)", len(l))
		}
		c = append(c, strconv.Quote(l))
	}
	if len(c) > 80 {
		c = append(c[:80], "...")
	}
	return c
}

var smtpMu sync.Mutex // config.Process reads the process environment

// runSmtpCase plays one dialogue (possibly cut) on a fresh real stack and on the model; returns the transcript for oracles.
func runSmtpCase(c *core.Ctx, m *core.Model, sc *smtpCase) (*dialogueResult, *smtpStack) {
	smtpMu.Lock()
	st, err := sc.env.build()
	smtpMu.Unlock()
	if err != nil {
		c.Note("stack build failed: %v", err)
		return nil, nil
	}
	var res dialogueResult
	if sc.pipelined {
		res = st.playPipelined(sc.d.lines)
	} else {
		res = st.play(sc.d.lines, sc.cut, sc.await)
	}
	sc.stream = res.written
	if res.panicked != "" {
		c.Fail("no-panic", sc.describe(), "SMTP session goroutine panicked: "+res.panicked, "")
		return &res, st
	}
	if res.wedged {
		c.Fail("no-wedge", sc.describe(), "session did not end within 8 s after the client closed the connection", "")
		return &res, st
	}
	if res.noReply >= 0 {
		c.Fail("one-reply-per-line", sc.describe(), fmt.Sprintf("no reply within 5 s to line %d", res.noReply), "")
		return &res, st
	}
	ans := m.Ask(st.modelLine(res.written, sc.d.blocks, "-"))
	c.Compared(1)
	toks := strings.Split(ans, " ")
	want := stripStore(toks)
	got := make([]string, len(res.replies))
	for i, r := range res.replies {
		got[i] = r.token()
	}
	// replies the client awaited must all match; replies to a cut-off tail cannot be observed
	okPrefix := len(got) <= len(want) && len(got) >= res.awaited
	if okPrefix {
		for i := range got {
			if got[i] != want[i] {
				okPrefix = false
			}
		}
	}
	if sc.cut < 0 && sc.await && len(got) != len(want) {
		okPrefix = false
	}
	if sc.pipelined {
		okPrefix = strings.Join(got, " ") == strings.Join(want, " ")
	}
	if !okPrefix {
		c.Diverge("smtp-replies", sc.describe(), strings.Join(got, " "), strings.Join(want, " ")+"   ["+ans[:min(len(ans), 300)]+"]")
		return &res, st
	}
	if wd := fieldOf(ans, "dump"); wd != res.dump {
		c.Diverge("smtp-store", sc.describe(), res.dump, wd)
	}
	return &res, st
}
