package main

// C16 (second half) — "a listener is never invoked for the next event before its previous invocation has finished,
// so it observes a message's stored before its deleted and deliveries to one mailbox in arrival order".
//
// Everything goes through the public API of the REAL brokers (extension.NewHost().Events.…, extension.EventBroker).
//   sync    T2: random AddListener/RemoveListener/Emit on extension.EventBroker[int,int] vs Model.Broker (emit, called)
//           oracle first-answer-wins (reference registry kept by the harness)
//   sched   T2: one listener name "L" on AfterMessageStored AND AfterMessageDeleted whose invocations block on a
//           harness gate; the harness plays emit/release/remove and after each action compares what is in progress,
//           the start order and the finish order with Model.Broker.run (the eager schedule of the interleaving model).
//           oracles: serial (never two invocations of L in progress — the first is HELD blocked while the next is
//           emitted, so an overlap is observed, not sampled), fifo (start order = emission order), exactly-once,
//           emit-prompt (Emit returns while L is blocked), other-listener-not-delayed (listener "M" gets each event
//           while L is blocked), stored-before-deleted across the two brokers
//   conc    oracles under 1–4 emitting goroutines with phase barriers (known happens-before edges)
//   life    add / replace / remove while events are queued: no panic, no deadlock, no call for events emitted after
//           RemoveListener, no goroutine left behind
//   e2e     real mem store + message.StoreManager + msghub.Hub + recording hub listener: deliver, delete at once,
//           sometimes purge, from several goroutines; hub sees stored(id) before deleted(id), per-mailbox arrival
//           order, every event once, and its history holds exactly the surviving messages (no phantom)

import (
	"context"
	"fmt"
	"math/rand"
	"runtime"
	"sort"
	"strconv"
	"strings"
	"sync"
	"sync/atomic"
	"time"

	"github.com/inbucket/inbucket/v3/pkg/config"
	"github.com/inbucket/inbucket/v3/pkg/extension"
	"github.com/inbucket/inbucket/v3/pkg/extension/event"
	"github.com/inbucket/inbucket/v3/pkg/message"
	"github.com/inbucket/inbucket/v3/pkg/msghub"
	"github.com/inbucket/inbucket/v3/pkg/policy"
	"github.com/inbucket/inbucket/v3/pkg/storage/mem"
	"github.com/rs/zerolog"

	"verif/harness/internal/core"
)

const c16bRule = "non-trivial = sync: at least two listeners registered when Emit is called / sched: a case with an event emitted while an invocation is held blocked / " +
	"conc, life, e2e: every case; distinct by case text"

func init() {
	extra["C16b"] = runC16Broker
	register("C16B", func(c *core.Ctx) {
		c.Res.Rule = c16bRule
		runC16Broker(c)
	})
}

const c16bKnown = "F-16b"

func runC16Broker(c *core.Ctx) {
	zerolog.SetGlobalLevel(zerolog.Disabled)
	if c.IsOpen(c16bKnown) && c16bWitness() {
		c.KnownStillFails(c16bKnown)
	}
	c16bLife(c) // first: it counts goroutines and wants the process quiet
	c16bSync(c)
	c16bSched(c)
	c16bConc(c)
	c16bE2E(c)
}

// ---------------------------------------------------------------------------------------------- sync broker

type c16bReg struct {
	name    string
	lid     int
	m, k    int
	answers func(e int) bool
}

func c16bSync(c *core.Ctx) {
	m := c.NewModel("broker")
	defer m.Close()
	rng := c.SubRng("c16b/sync")
	names := []string{"a", "b", "c", "d"}
	for cs := 0; cs < c.Scale(1500, 20000); cs++ {
		broker := &extension.EventBroker[int, int]{}
		var ref []c16bReg // reference registry, kept independently of the model
		var calledLog []string
		lines := []string{"s.reset"}
		type chk struct {
			line             string
			impl, oracleWant string
		}
		var checks []chk
		nontrivial := false
		lid := 0
		for i, n := 0, 3+rng.Intn(12); i < n; i++ {
			switch r := rng.Intn(10); {
			case r < 4:
				lid++
				name := names[rng.Intn(len(names))]
				mod := rng.Intn(4)
				k := 0
				if mod > 0 {
					k = rng.Intn(mod)
				}
				me := c16bReg{name: name, lid: lid, m: mod, k: k}
				id := lid
				broker.AddListener(name, func(e int) *int {
					calledLog = append(calledLog, name)
					if mod != 0 && e%mod == k {
						v := id
						return &v
					}
					return nil
				})
				for j := range ref {
					if ref[j].name == name {
						ref = append(ref[:j:j], ref[j+1:]...)
						break
					}
				}
				ref = append(ref, me)
				lines = append(lines, fmt.Sprintf("s.add %s %d %d %d", name, lid, mod, k))
			case r < 6:
				name := names[rng.Intn(len(names))]
				broker.RemoveListener(name)
				for j := range ref {
					if ref[j].name == name {
						ref = append(ref[:j:j], ref[j+1:]...)
						break
					}
				}
				lines = append(lines, "s.remove "+name)
			default:
				e := rng.Intn(7)
				calledLog = nil
				ev := e
				var got *int
				pan := c16bRecover(func() { got = broker.Emit(&ev) })
				impl := "r=-"
				if got != nil {
					impl = "r=" + strconv.Itoa(*got)
				}
				if pan != "" {
					impl = "panic"
				}
				if len(calledLog) == 0 {
					impl += " called=_"
				} else {
					impl += " called=" + strings.Join(calledLog, ",")
				}
				// oracle: first answer in registration order wins, later listeners are not called
				want, wc := "r=-", []string{}
				for _, l := range ref {
					wc = append(wc, l.name)
					if l.m != 0 && e%l.m == l.k {
						want = "r=" + strconv.Itoa(l.lid)
						break
					}
				}
				ws := want + " called=_"
				if len(wc) > 0 {
					ws = want + " called=" + strings.Join(wc, ",")
				}
				if ev != e {
					impl += " event-mutated"
				}
				if len(ref) >= 2 {
					nontrivial = true
				}
				line := "s.emit " + strconv.Itoa(e)
				lines = append(lines, line)
				checks = append(checks, chk{line, impl, ws})
			}
		}
		ans := m.AskAll(lines)
		ci := 0
		for i, l := range lines {
			if !strings.HasPrefix(l, "s.emit") {
				continue
			}
			ck := checks[ci]
			ci++
			c.Compared(1)
			if ans[i] != ck.impl {
				c.Diverge("broker.sync", lines[:i+1], ck.impl, ans[i])
			}
			if ck.impl != ck.oracleWant {
				c.Fail("first-answer-wins", lines[:i+1], "EventBroker.Emit: got "+ck.impl+" want "+ck.oracleWant, "")
			}
		}
		c.Count("sync|"+strings.Join(lines, ";"), nontrivial)
		c.H(fmt.Sprintf("sync:emits=%d", min(len(checks), 5)))
		if cs < 2 {
			c.Sample(map[string]interface{}{"leg": "sync", "ops": lines, "answers": ans})
		}
	}
}

func c16bRecover(f func()) (pan string) {
	defer func() {
		if r := recover(); r != nil {
			pan = fmt.Sprint(r)
		}
	}()
	f()
	return ""
}

// ---------------------------------------------------------------------------------------------- recording listener

type c16bEvt struct {
	enter bool
	id    int
}

// c16bRec records enter/exit of every invocation of ONE listener name; an invocation blocks on gate if gate != nil.
type c16bRec struct {
	mu       sync.Mutex
	log      []c16bEvt
	inFlight int
	maxIn    int
	overlap  string // first overlap seen: "enter x while y in progress"
	cur      map[int]bool
	gate     chan struct{}
	changed  chan struct{} // poked after every enter/exit
	work     func()
}

func newC16bRec(gated bool) *c16bRec {
	r := &c16bRec{cur: map[int]bool{}, changed: make(chan struct{}, 1)}
	if gated {
		r.gate = make(chan struct{})
	}
	return r
}

func (r *c16bRec) poke() {
	select {
	case r.changed <- struct{}{}:
	default:
	}
}

func (r *c16bRec) call(id int) {
	r.mu.Lock()
	r.log = append(r.log, c16bEvt{true, id})
	if r.inFlight > 0 && r.overlap == "" {
		others := []string{}
		for o := range r.cur {
			others = append(others, strconv.Itoa(o))
		}
		sort.Strings(others)
		r.overlap = fmt.Sprintf("invocation for event %d entered while the invocation for event %s was still in progress", id, strings.Join(others, ","))
	}
	r.inFlight++
	if r.inFlight > r.maxIn {
		r.maxIn = r.inFlight
	}
	r.cur[id] = true
	r.mu.Unlock()
	r.poke()
	if r.gate != nil {
		<-r.gate
	}
	if r.work != nil {
		r.work()
	}
	r.mu.Lock()
	r.log = append(r.log, c16bEvt{false, id})
	r.inFlight--
	delete(r.cur, id)
	r.mu.Unlock()
	r.poke()
}

func (r *c16bRec) snapshot() (cur []int, started, done []int, maxIn int, overlap string) {
	r.mu.Lock()
	defer r.mu.Unlock()
	for _, e := range r.log {
		if e.enter {
			started = append(started, e.id)
		} else {
			done = append(done, e.id)
		}
	}
	for id := range r.cur {
		cur = append(cur, id)
	}
	sort.Ints(cur)
	return cur, started, done, r.maxIn, r.overlap
}

// waitFor polls until pred(snapshot) or the deadline; returns whether pred became true.
func (r *c16bRec) waitFor(d time.Duration, pred func(started, done []int) bool) bool {
	deadline := time.Now().Add(d)
	for {
		_, st, dn, _, _ := r.snapshot()
		if pred(st, dn) {
			return true
		}
		left := time.Until(deadline)
		if left <= 0 {
			return false
		}
		select {
		case <-r.changed:
		case <-time.After(min(left, 5*time.Millisecond)):
		}
	}
}

func c16bInts(l []int) string {
	if len(l) == 0 {
		return "-"
	}
	p := make([]string, len(l))
	for i, v := range l {
		p[i] = strconv.Itoa(v)
	}
	return strings.Join(p, ",")
}

// event ids: message number n -> stored = 2n, deleted = 2n+1 (as Props.C16Broker.storedEv / deletedEv)
func c16bMeta(id int) event.MessageMetadata {
	return event.MessageMetadata{Mailbox: "box", ID: strconv.Itoa(id)}
}

func c16bID(m event.MessageMetadata) int {
	n, err := strconv.Atoi(m.ID)
	if err != nil {
		return -1
	}
	return n
}

// c16bEmit sends event id to the broker its kind belongs to; false if Emit did not return within the deadline.
func c16bEmit(h *extension.Host, id int, deadline time.Duration) (ok bool, took time.Duration, pan string) {
	done := make(chan struct{})
	t0 := time.Now()
	go func() {
		defer close(done)
		pan = c16bRecover(func() {
			m := c16bMeta(id)
			if id%2 == 0 {
				h.Events.AfterMessageStored.Emit(&m)
			} else {
				h.Events.AfterMessageDeleted.Emit(&m)
			}
			// the emitter owns the event again once Emit has returned: listeners must have been given a copy
			m.ID, m.Mailbox = "-1", "mutated-after-emit"
		})
	}()
	select {
	case <-done:
		return true, time.Since(t0), pan
	case <-time.After(deadline):
		return false, time.Since(t0), ""
	}
}

// c16bWitness replays the stored witness of F-16b: hold the invocation for stored(4) blocked, emit deleted(4);
// true if the listener is entered for deleted(4) while stored(4) is still in progress.
func c16bWitness() bool {
	h := extension.NewHost()
	rec := newC16bRec(true)
	h.Events.AfterMessageStored.AddListener("L", func(m event.MessageMetadata) { rec.call(c16bID(m)) })
	h.Events.AfterMessageDeleted.AddListener("L", func(m event.MessageMetadata) { rec.call(c16bID(m)) })
	defer func() {
		close(rec.gate)
		h.Events.AfterMessageStored.RemoveListener("L")
		h.Events.AfterMessageDeleted.RemoveListener("L")
	}()
	c16bEmit(h, 8, time.Second)
	if !rec.waitFor(2*time.Second, func(st, _ []int) bool { return len(st) >= 1 }) {
		return false
	}
	c16bEmit(h, 9, time.Second)
	return rec.waitFor(200*time.Millisecond, func(st, _ []int) bool { return len(st) >= 2 })
}

// ---------------------------------------------------------------------------------------------- sched (T2 + oracles)

func c16bSched(c *core.Ctx) {
	m := c.NewModel("broker")
	defer m.Close()
	rng := c.SubRng("c16b/sched")
	cases := c.Scale(250, 4000)
	for cs := 0; cs < cases; cs++ {
		c16bSchedCase(c, m, rng, cs)
	}
}

func c16bSchedCase(c *core.Ctx, m *core.Model, rng *rand.Rand, cs int) {
	h := extension.NewHost()
	L := newC16bRec(true)
	M := newC16bRec(false)
	h.Events.AfterMessageStored.AddListener("L", func(e event.MessageMetadata) { L.call(c16bID(e)) })
	h.Events.AfterMessageDeleted.AddListener("L", func(e event.MessageMetadata) { L.call(c16bID(e)) })
	h.Events.AfterMessageStored.AddListener("M", func(e event.MessageMetadata) { M.call(c16bID(e)) })
	h.Events.AfterMessageDeleted.AddListener("M", func(e event.MessageMetadata) { M.call(c16bID(e)) })
	grace := 300 * time.Microsecond
	longHoldLeft := 1 // one long hold per case: the blocked invocation is held 25 ms with an event queued behind it

	nEv := 2 + rng.Intn(19)
	withRemove := rng.Intn(4) == 0
	lines := []string{"a.reset"}
	var impls []string
	var emitted []int // emission order (the harness emits from one goroutine: a total order)
	removed := false
	emittedBeforeRemove := 0
	released := 0
	nextMsg := 0
	var pendingDelete []int
	heldWithQueue := false
	fail := func(oracle, detail, known string) {
		c.Fail(oracle, append([]string{}, lines...), detail, known)
	}
	observe := func(line string) {
		// quiescence by the contract: started = min(emitted before removal, released+1) unless removed with nothing to start
		wantStarted := min(emittedBeforeRemove, released+1)
		if removed {
			_, st, _, _, _ := L.snapshot()
			wantStarted = len(st) // nothing new may be required to start after removal
		}
		if !L.waitFor(3*time.Second, func(st, dn []int) bool { return len(st) >= wantStarted && len(dn) >= released }) {
			_, st, dn, _, _ := L.snapshot()
			fail("delivered", fmt.Sprintf("after %q: expected %d invocations started and %d finished within 3 s, saw started=%s done=%s",
				line, wantStarted, released, c16bInts(st), c16bInts(dn)), "")
		}
		hold := grace
		if longHoldLeft > 0 && len(emitted) > released+1 && !removed {
			hold = 25 * time.Millisecond
			longHoldLeft--
		}
		time.Sleep(hold)
		cur, st, dn, _, _ := L.snapshot()
		cs := "-"
		if len(cur) == 1 {
			cs = strconv.Itoa(cur[0])
		} else if len(cur) > 1 {
			cs = "overlap"
		}
		impls = append(impls, fmt.Sprintf("cur=%s started=%s done=%s", cs, c16bInts(st), c16bInts(dn)))
		lines = append(lines, line)
	}
	doEmit := func() {
		var id int
		if len(pendingDelete) > 0 && rng.Intn(2) == 0 {
			id = pendingDelete[0]*2 + 1
			pendingDelete = pendingDelete[1:]
		} else {
			id = nextMsg * 2
			pendingDelete = append(pendingDelete, nextMsg)
			nextMsg++
		}
		ok, took, pan := c16bEmit(h, id, 5*time.Second)
		if pan != "" {
			fail("no-panic", "Emit panicked: "+pan, "")
		}
		if !ok || took > time.Second {
			fail("emit-prompt", fmt.Sprintf("Emit(%d) took %v while the listener was blocked (returned=%v)", id, took, ok), "")
		}
		emitted = append(emitted, id)
		if !removed {
			emittedBeforeRemove++
			if emittedBeforeRemove > released+1 {
				heldWithQueue = true
			}
		}
		// the unblocked listener M must see the event although L is blocked
		want := len(emitted)
		if !M.waitFor(3*time.Second, func(st, dn []int) bool { return len(dn) >= want }) {
			_, st, _, _, _ := M.snapshot()
			fail("other-listener-not-delayed", fmt.Sprintf("listener M had %d of %d events 3 s after Emit(%d) while L was blocked", len(st), want, id), "")
		}
		observe("a.emit " + strconv.Itoa(id))
	}
	doRelease := func() {
		select {
		case L.gate <- struct{}{}:
			released++
		case <-time.After(3 * time.Second):
			fail("delivered", "no invocation was waiting at the gate although one should be in progress", "")
			return
		}
		observe("a.release")
	}
	inProgress := func() bool {
		cur, _, _, _, _ := L.snapshot()
		return len(cur) > 0
	}
	for len(emitted) < nEv {
		r := rng.Intn(10)
		switch {
		case r < 6 || !inProgress():
			doEmit()
		case r < 9:
			doRelease()
		default:
			if withRemove && !removed && len(emitted) >= 2 {
				pan := c16bRecover(func() {
					h.Events.AfterMessageStored.RemoveListener("L")
					h.Events.AfterMessageDeleted.RemoveListener("L")
				})
				if pan != "" {
					fail("no-panic", "RemoveListener panicked: "+pan, "")
				}
				removed = true
				observe("a.remove")
			} else {
				doRelease()
			}
		}
	}
	// drain: release until nothing is in progress any more
	for i := 0; i < 2*nEv+4; i++ {
		if !inProgress() {
			// an idle worker with queued events would have started one within the observe() of the last action
			break
		}
		doRelease()
	}
	_, st, dn, maxIn, overlap := L.snapshot()

	// ---- T2: the same actions on the model
	ans := m.AskAll(lines)
	for i := 1; i < len(lines); i++ {
		got := ans[i]
		if j := strings.Index(got, " dropped="); j >= 0 {
			got = got[:j] // what was dropped is not observable through the public API
		}
		c.Compared(1)
		if got != impls[i-1] {
			c.Diverge("broker.async-schedule", lines[:i+1], impls[i-1], got)
			break
		}
	}

	// ---- oracles on the implementation alone
	if maxIn > 1 {
		fail("listener-serial", fmt.Sprintf("%d invocations of listener L in progress at once: %s", maxIn, overlap), c16bKnown)
	}
	if !removed {
		if c16bInts(st) != c16bInts(emitted) {
			fail("listener-fifo", "start order "+c16bInts(st)+" differs from emission order "+c16bInts(emitted), c16bKnown)
		}
		if c16bInts(dn) != c16bInts(emitted) {
			fail("exactly-once", "finished "+c16bInts(dn)+", emitted "+c16bInts(emitted), "")
		}
	} else {
		// events emitted after RemoveListener returned must not reach L; those before: at most once, in order
		pre := emitted[:emittedBeforeRemove]
		if len(st) > len(pre) || c16bInts(st) != c16bInts(pre[:len(st)]) {
			fail("listener-fifo", "with a removal: started "+c16bInts(st)+" is not a prefix of what was emitted before it "+c16bInts(pre), c16bKnown)
		}
	}
	// stored(n) finished before deleted(n) entered
	pos := map[int]int{}
	L.mu.Lock()
	for i, e := range L.log {
		k := e.id * 2
		if e.enter {
			k++
		}
		pos[k] = i + 1 // id*2+1: enter, id*2: exit
	}
	L.mu.Unlock()
	for n := 0; n < nextMsg; n++ {
		sExit, dEnter := pos[(2*n)*2], pos[(2*n+1)*2+1]
		if dEnter != 0 && (sExit == 0 || sExit > dEnter) {
			fail("stored-before-deleted", fmt.Sprintf("listener L was entered for deleted(box/%d) before its invocation for stored(box/%d) had finished", n, n), c16bKnown)
		}
	}
	close(L.gate)
	h.Events.AfterMessageStored.RemoveListener("L")
	h.Events.AfterMessageDeleted.RemoveListener("L")
	h.Events.AfterMessageStored.RemoveListener("M")
	h.Events.AfterMessageDeleted.RemoveListener("M")
	c.Count("sched|"+strings.Join(lines, ";"), heldWithQueue)
	c.H(fmt.Sprintf("sched:events=%d-%d", nEv/5*5, nEv/5*5+4))
	if removed {
		c.H("sched:with-remove")
	}
	if cs < 2 {
		c.Sample(map[string]interface{}{"leg": "sched", "actions": lines[1:], "observed": impls})
	}
}

// ---------------------------------------------------------------------------------------------- conc (oracles)

func c16bConc(c *core.Ctx) {
	rng := c.SubRng("c16b/conc")
	for cs := 0; cs < c.Scale(600, 10000); cs++ {
		h := extension.NewHost()
		L := newC16bRec(false)
		spin := rng.Intn(3)
		L.work = func() {
			for i := 0; i < spin; i++ {
				runtime.Gosched()
			}
		}
		h.Events.AfterMessageStored.AddListener("L", func(e event.MessageMetadata) { L.call(c16bID(e)) })
		h.Events.AfterMessageDeleted.AddListener("L", func(e event.MessageMetadata) { L.call(c16bID(e)) })
		g := 1 + rng.Intn(4)
		total := 2 + rng.Intn(19)
		phases := 1 + rng.Intn(3)
		// plan[p][g] = event ids emitted by goroutine g in phase p, in this order
		plan := make([][][]int, phases)
		phaseOf := map[int]int{}
		gorOf := map[int]int{}
		seqOf := map[int]int{}
		id := 0
		for p := range plan {
			plan[p] = make([][]int, g)
		}
		for i := 0; i < total; i++ {
			p, gi := rng.Intn(phases), rng.Intn(g)
			// ids alternate kinds so that both brokers are used; identity is the number itself
			plan[p][gi] = append(plan[p][gi], id)
			phaseOf[id], gorOf[id], seqOf[id] = p, gi, len(plan[p][gi])
			id++
		}
		desc := fmt.Sprintf("conc g=%d phases=%d plan=%v", g, phases, plan)
		stuck := false
		for p := 0; p < phases && !stuck; p++ {
			var wg sync.WaitGroup
			for gi := 0; gi < g; gi++ {
				wg.Add(1)
				go func(evs []int) {
					defer wg.Done()
					for _, e := range evs {
						c16bEmit(h, e, 5*time.Second)
					}
				}(plan[p][gi])
			}
			wgDone := make(chan struct{})
			go func() { wg.Wait(); close(wgDone) }()
			select {
			case <-wgDone:
			case <-time.After(20 * time.Second):
				stuck = true
				c.Fail("emit-prompt", []string{desc}, "emitters did not finish a phase within 20 s", "")
			}
		}
		if !L.waitFor(5*time.Second, func(st, dn []int) bool { return len(dn) >= total }) {
			_, st, dn, _, _ := L.snapshot()
			c.Fail("exactly-once", []string{desc}, fmt.Sprintf("only %d of %d events delivered after 5 s (started %d)", len(dn), total, len(st)), "")
		}
		time.Sleep(200 * time.Microsecond)
		_, st, dn, maxIn, overlap := L.snapshot()
		if maxIn > 1 {
			c.Fail("listener-serial", []string{desc}, overlap, c16bKnown)
		}
		seen := map[int]int{}
		for _, e := range dn {
			seen[e]++
		}
		for e := 0; e < total; e++ {
			if seen[e] != 1 {
				c.Fail("exactly-once", []string{desc}, fmt.Sprintf("event %d delivered %d times", e, seen[e]), "")
				break
			}
		}
		// known happens-before: earlier phase, or same goroutine and phase with smaller sequence number
		at := map[int]int{}
		for i, e := range st {
			if _, dup := at[e]; !dup {
				at[e] = i
			}
		}
		bad := ""
		for a := 0; a < total && bad == ""; a++ {
			for b := 0; b < total; b++ {
				hb := phaseOf[a] < phaseOf[b] || (phaseOf[a] == phaseOf[b] && gorOf[a] == gorOf[b] && seqOf[a] < seqOf[b])
				ia, oka := at[a]
				ib, okb := at[b]
				if hb && oka && okb && ia > ib {
					bad = fmt.Sprintf("Emit(%d) returned before Emit(%d) began, but the listener was entered for %d first (start order %s)", a, b, b, c16bInts(st))
					break
				}
			}
		}
		if bad != "" {
			c.Fail("listener-fifo", []string{desc}, bad, c16bKnown)
		}
		h.Events.AfterMessageStored.RemoveListener("L")
		h.Events.AfterMessageDeleted.RemoveListener("L")
		c.Count(desc, true)
		c.H(fmt.Sprintf("conc:goroutines=%d", g))
	}
}

// ---------------------------------------------------------------------------------------------- lifecycle

func c16bSettle(base int, d time.Duration) int {
	deadline := time.Now().Add(d)
	n := runtime.NumGoroutine()
	for n > base && time.Now().Before(deadline) {
		time.Sleep(2 * time.Millisecond)
		n = runtime.NumGoroutine()
	}
	return n
}

func c16bLife(c *core.Ctx) {
	rng := c.SubRng("c16b/life")
	leakWait := 3 * time.Second
	time.Sleep(20 * time.Millisecond)
	for cs := 0; cs < c.Scale(150, 2500); cs++ {
		base := runtime.NumGoroutine() // whatever is running now is the baseline of this case
		var steps []string
		fail := func(oracle, detail string) { c.Fail(oracle, append([]string{}, steps...), detail, "") }
		standalone := rng.Intn(2) == 0
		var stored, deleted *extension.AsyncEventBroker[event.MessageMetadata]
		if standalone {
			stored = &extension.AsyncEventBroker[event.MessageMetadata]{}
			deleted = &extension.AsyncEventBroker[event.MessageMetadata]{}
		} else {
			h := extension.NewHost()
			stored, deleted = &h.Events.AfterMessageStored, &h.Events.AfterMessageDeleted
		}
		brokers := []*extension.AsyncEventBroker[event.MessageMetadata]{stored, deleted}
		names := []string{"x", "y", "z"}
		type reg struct {
			rec      *c16bRec
			brokerIx int
			name     string
			from     int // index of the first event emitted after this registration
			until    int // index of the first event emitted after its removal/replacement (-1: still registered)
		}
		var regs []*reg
		var emittedTo []int // broker index of each event; event id = its index
		var gates []chan struct{}
		guard := func(what string, f func()) {
			steps = append(steps, what)
			done := make(chan string, 1)
			go func() { done <- c16bRecover(f) }()
			select {
			case p := <-done:
				if p != "" {
					fail("no-panic", what+" panicked: "+p)
				}
			case <-time.After(5 * time.Second):
				fail("no-deadlock", what+" did not return within 5 s while listeners were blocked")
			}
		}
		active := func(bi int, name string) *reg {
			for _, r := range regs {
				if r.brokerIx == bi && r.name == name && r.until < 0 {
					return r
				}
			}
			return nil
		}
		for i, n := 0, 6+rng.Intn(20); i < n; i++ {
			bi := rng.Intn(2)
			name := names[rng.Intn(len(names))]
			switch r := rng.Intn(10); {
			case r < 3: // add or replace, blocking listener or not
				if old := active(bi, name); old != nil {
					old.until = len(emittedTo)
				}
				rec := newC16bRec(rng.Intn(3) > 0)
				if rec.gate != nil {
					gates = append(gates, rec.gate)
				}
				regs = append(regs, &reg{rec: rec, brokerIx: bi, name: name, from: len(emittedTo), until: -1})
				guard(fmt.Sprintf("AddListener(%d,%s)", bi, name), func() {
					brokers[bi].AddListener(name, func(e event.MessageMetadata) { rec.call(c16bID(e)) })
				})
			case r < 5:
				if old := active(bi, name); old != nil {
					old.until = len(emittedTo)
				}
				guard(fmt.Sprintf("RemoveListener(%d,%s)", bi, name), func() { brokers[bi].RemoveListener(name) })
			default:
				id := len(emittedTo)
				emittedTo = append(emittedTo, bi)
				guard(fmt.Sprintf("Emit(%d,#%d)", bi, id), func() { m := c16bMeta(id); brokers[bi].Emit(&m) })
			}
		}
		// open all gates, let everything drain, then unregister everything
		for _, g := range gates {
			close(g)
		}
		for _, r := range regs {
			r := r
			if r.until >= 0 {
				continue
			}
			want := 0
			for id, bi := range emittedTo {
				if bi == r.brokerIx && id >= r.from {
					want++
				}
			}
			if !r.rec.waitFor(5*time.Second, func(st, dn []int) bool { return len(dn) >= want }) {
				_, st, dn, _, _ := r.rec.snapshot()
				fail("exactly-once", fmt.Sprintf("listener %s on broker %d (registered to the end) finished %s, started %s, expected %d events", r.name, r.brokerIx, c16bInts(dn), c16bInts(st), want))
			}
		}
		for bi := range brokers {
			for _, name := range names {
				guard(fmt.Sprintf("RemoveListener(%d,%s)", bi, name), func() { brokers[bi].RemoveListener(name) })
			}
		}
		guard("Emit after all removed", func() { m := c16bMeta(9999); stored.Emit(&m); deleted.Emit(&m) })
		time.Sleep(300 * time.Microsecond)
		for _, r := range regs {
			_, st, _, maxIn, overlap := r.rec.snapshot()
			var want []int // events emitted while it was registered, in order
			for id, bi := range emittedTo {
				if bi == r.brokerIx && id >= r.from && (r.until < 0 || id < r.until) {
					want = append(want, id)
				}
			}
			if maxIn > 1 {
				fail("listener-serial", overlap)
			}
			// a listener registered to the end gets exactly its events; one removed earlier gets a prefix of them
			// (never an event emitted before it was added or after it was removed / replaced)
			okPrefix := len(st) <= len(want) && c16bInts(st) == c16bInts(want[:len(st)])
			if r.until < 0 && c16bInts(st) != c16bInts(want) || !okPrefix {
				fail("listener-fifo", fmt.Sprintf("listener %s on broker %d registered for events [%d,%d) got %s, emitted to it while registered: %s", r.name, r.brokerIx, r.from, r.until, c16bInts(st), c16bInts(want)))
			}
		}
		if n := c16bSettle(base, leakWait); n > base {
			fail("goroutine-leak", fmt.Sprintf("%d goroutines before the case, %d still there %v after every listener was removed and released", base, n, leakWait))
			leakWait = 200 * time.Millisecond // reported once with the long wait; do not spend 3 s on every later case
		}
		c.Count("life|"+strings.Join(steps, ";"), true)
		c.H("life:standalone=" + strconv.FormatBool(standalone))
	}
}

// ---------------------------------------------------------------------------------------------- end to end

type c16bHubRec struct {
	mu  sync.Mutex
	log []string // "S box id" / "D box id"
	n   atomic.Int64
}

func (r *c16bHubRec) Receive(m event.MessageMetadata) error {
	r.mu.Lock()
	r.log = append(r.log, "S "+m.Mailbox+" "+m.ID)
	r.mu.Unlock()
	r.n.Add(1)
	return nil
}

func (r *c16bHubRec) Delete(mailbox, id string) error {
	r.mu.Lock()
	r.log = append(r.log, "D "+mailbox+" "+id)
	r.mu.Unlock()
	r.n.Add(1)
	return nil
}

func c16bE2E(c *core.Ctx) {
	rng := c.SubRng("c16b/e2e")
	for cs := 0; cs < c.Scale(20, 200); cs++ {
		workers := 1 + rng.Intn(4)
		per := c.Scale(60, 200)
		seeds := make([]int64, workers)
		for i := range seeds {
			seeds[i] = rng.Int63()
		}
		procs := 0 // every other case on ONE processor: there the scheduler runs the goroutine readied LAST first
		if cs%2 == 1 {
			procs = 1
		}
		desc := fmt.Sprintf("e2e workers=%d per=%d seeds=%v gomaxprocs=%d", workers, per, seeds, procs)
		prevProcs := 0
		if procs > 0 {
			prevProcs = runtime.GOMAXPROCS(procs)
		}
		host := extension.NewHost()
		store, err := mem.New(config.Storage{Params: map[string]string{}}, host)
		if err != nil {
			c.Fail("e2e-setup", []string{desc}, "mem.New: "+err.Error(), "")
			if prevProcs > 0 {
				runtime.GOMAXPROCS(prevProcs)
			}
			return
		}
		hub := msghub.New(workers*per+16, host)
		ctx, cancel := context.WithCancel(context.Background())
		go hub.Start(ctx)
		rec := &c16bHubRec{}
		hub.AddListener(rec)
		hub.Sync()
		sm := &message.StoreManager{
			AddrPolicy: &policy.Addressing{Config: &config.Root{MailboxNaming: config.FullNaming,
				SMTP: config.SMTP{DefaultAccept: true, DefaultStore: true}}},
			Store: store, ExtHost: host,
		}
		// each worker owns one mailbox, so its emission order is known: stored(id) then (maybe) deleted(id)
		expect := make([][]string, workers)
		survivors := make([]map[string]bool, workers)
		var wg sync.WaitGroup
		var firstErr atomic.Value
		for w := 0; w < workers; w++ {
			wg.Add(1)
			go func(w int) {
				defer wg.Done()
				r := rand.New(rand.NewSource(seeds[w]))
				box := fmt.Sprintf("w%d@example.com", w)
				origin, _ := sm.AddrPolicy.ParseOrigin("from@example.com")
				recip, _ := sm.AddrPolicy.NewRecipient(box)
				alive := map[string]bool{}
				var order []string
				for i := 0; i < per; i++ {
					body := []byte(fmt.Sprintf("From: from@example.com\nSubject: m%d\n\nbody %d", i, i))
					if err := sm.Deliver(origin, []*policy.Recipient{recip}, "Received: x\n", body); err != nil {
						firstErr.CompareAndSwap(nil, "deliver: "+err.Error())
						return
					}
					msgs, err := store.GetMessages(box)
					if err != nil || len(msgs) == 0 {
						firstErr.CompareAndSwap(nil, "GetMessages after Deliver found nothing")
						return
					}
					id := msgs[len(msgs)-1].ID()
					expect[w] = append(expect[w], "S "+box+" "+id)
					alive[id] = true
					order = append(order, id)
					switch k := r.Intn(20); {
					case k < 13: // delete it immediately
						if err := store.RemoveMessage(box, id); err != nil {
							firstErr.CompareAndSwap(nil, "remove: "+err.Error())
							return
						}
						expect[w] = append(expect[w], "D "+box+" "+id)
						delete(alive, id)
					case k == 13: // purge: every live message of the box, in some order
						if err := store.PurgeMessages(box); err != nil {
							firstErr.CompareAndSwap(nil, "purge: "+err.Error())
							return
						}
						for _, o := range order {
							if alive[o] {
								expect[w] = append(expect[w], "D* "+box+" "+o)
								delete(alive, o)
							}
						}
					}
				}
				survivors[w] = alive
			}(w)
		}
		wg.Wait()
		if e := firstErr.Load(); e != nil {
			c.Fail("e2e-setup", []string{desc}, e.(string), "")
			cancel()
			if prevProcs > 0 {
				runtime.GOMAXPROCS(prevProcs)
			}
			continue
		}
		total := 0
		for _, e := range expect {
			total += len(e)
		}
		deadline := time.Now().Add(10 * time.Second)
		for rec.n.Load() < int64(total) && time.Now().Before(deadline) {
			time.Sleep(time.Millisecond)
		}
		time.Sleep(2 * time.Millisecond)
		hub.Sync()
		rec.mu.Lock()
		got := append([]string{}, rec.log...)
		rec.mu.Unlock()
		// per mailbox projection of what the hub told its listener
		perBox := make([][]string, workers)
		for _, l := range got {
			var w int
			if _, err := fmt.Sscanf(strings.Fields(l)[1], "w%d@example.com", &w); err == nil && w < workers {
				perBox[w] = append(perBox[w], l)
			}
		}
		for w := 0; w < workers; w++ {
			// stored events of a mailbox in arrival order; stored(id) before deleted(id); each exactly once
			pos := map[string]int{}
			dup := ""
			for i, l := range perBox[w] {
				if _, ok := pos[l]; ok {
					dup = l
				}
				pos[l] = i + 1
			}
			if dup != "" {
				c.Fail("exactly-once", []string{desc}, "hub listener saw \""+dup+"\" twice", "")
			}
			lastS := 0
			for _, e := range expect[w] {
				f := strings.Fields(e)
				key := e
				if f[0] == "D*" {
					key = "D " + f[1] + " " + f[2]
				}
				p := pos[key]
				if p == 0 {
					c.Fail("exactly-once", []string{desc}, "hub listener never saw \""+key+"\" ("+strconv.Itoa(len(perBox[w]))+" of "+strconv.Itoa(len(expect[w]))+" events of that mailbox arrived)", "")
					break
				}
				if f[0] == "S" {
					if p < lastS {
						c.Fail("arrival-order", []string{desc}, "hub listener saw \""+key+"\" before an earlier delivery to the same mailbox", c16bKnown)
						break
					}
					lastS = p
				} else if ps := pos["S "+f[1]+" "+f[2]]; ps == 0 || ps > p {
					c.Fail("stored-before-deleted", []string{desc}, "hub listener saw deleted("+f[1]+"/"+f[2]+") before stored of the same message", c16bKnown)
					break
				}
			}
			if len(perBox[w]) != len(expect[w]) {
				c.Fail("exactly-once", []string{desc}, fmt.Sprintf("mailbox w%d: hub listener saw %d events, %d were emitted", w, len(perBox[w]), len(expect[w])), "")
			}
		}
		// the hub's history = the surviving messages (a deleted-before-stored pair leaves a phantom)
		rec2 := &c16bHubRec{}
		hub.AddListener(rec2)
		hub.Sync()
		rec2.mu.Lock()
		hist := append([]string{}, rec2.log...)
		rec2.mu.Unlock()
		wantHist := []string{}
		for w, a := range survivors {
			for id := range a {
				wantHist = append(wantHist, fmt.Sprintf("S w%d@example.com %s", w, id))
			}
		}
		sort.Strings(hist)
		sort.Strings(wantHist)
		if strings.Join(hist, "|") != strings.Join(wantHist, "|") {
			extra := []string{}
			ws := map[string]bool{}
			for _, x := range wantHist {
				ws[x] = true
			}
			for _, x := range hist {
				if !ws[x] {
					extra = append(extra, x)
				}
			}
			c.Fail("hub-history", []string{desc}, fmt.Sprintf("monitor history has %d entries, %d messages exist; phantom entries: %v", len(hist), len(wantHist), extra), c16bKnown)
		}
		cancel()
		if prevProcs > 0 {
			runtime.GOMAXPROCS(prevProcs)
		}
		host.Events.AfterMessageStored.RemoveListener("msghub")
		host.Events.AfterMessageDeleted.RemoveListener("msghub")
		c.Count(desc, true)
		c.H(fmt.Sprintf("e2e:workers=%d", workers))
		if cs == 0 {
			c.Sample(map[string]interface{}{"leg": "e2e", "case": desc, "events": total, "history": len(hist)})
		}
	}
}
