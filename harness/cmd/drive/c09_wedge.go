package main

// C09, legs "every store operation RETURNS" (attached through extra["C09"]; stand-alone for the builder as prop C09W).
// Implementation-only: the sentence of C09 is "every operation completes, the process neither crashes nor deadlocks".
//
// All scenarios run in CHILD processes (this binary re-executed with VERIF_C09W_CHILD=<json c09wSpec>): a goroutine that is wedged
// inside the store cannot be killed, so the child's watchdog reports the hang — scenario, the operations in flight, a summary of the
// goroutines that stand in pkg/storage or pkg/extension — and exits with status 3; the parent turns that into an oracle failure and
// restarts the batch behind the scenario.
//
// (i) fault: file store with cap 1 / 2 / 3 / 5, one mailbox AT ITS CAP whose directory is made to refuse ONE KIND of file-system call
//     PERSISTENTLY for the duration of the phase (through the verif step hook, which re-creates the obstruction before every such call,
//     whatever the store did in between):
//        index-tmp-dir    a directory stands where index.gob.tmp is to be created      (every index write fails at create)
//        index-tmp-full   index.gob.tmp is a symlink to /dev/full                      (every index write fails at the flush: disk full)
//        raw-create       a directory stands where <id>.raw is to be created           (every delivery fails at create-raw)
//        unlink-raw       <id>.raw is replaced by a non-empty directory                (every unlink of a content file fails)
//        readonly-dir     the mailbox directory is 0555                                (only when not running as root)
//     Then 2-3 goroutines deliver / remove / purge / mark / list on that mailbox, one goroutine works on a NEIGHBOUR mailbox of the
//     same lock bucket (same first three hex digits of the hash), one on a mailbox of another bucket, one walks all mailboxes.
//        operation-returns            every call returns within the watchdog limit (millisecond work, limit seconds)
//        other-mailboxes-unaffected   the neighbour's and the other mailbox's operations succeed and their listings are exactly what
//                                     their own (sequential) history says
//        store-contract               after the obstruction is lifted: the obstructed mailbox is readable, lists no id twice, nothing it
//                                     never acknowledged, at most cap messages, every listed message with its own content; a fresh run of
//                                     cap+1 deliveries is acknowledged and listed
// (ii) listener: a real extension.Host; AfterMessageDeleted / AfterMessageStored listeners that USE THE STORE from inside the call
//     (GetMessages / GetMessage on the event's mailbox and on a neighbour of the same bucket, AddMessage to a sink mailbox of the same and
//     of another bucket), slow listeners, plain recorders; operations that emit many events under ONE lock hold (PurgeMessages of 1 … 400
//     messages; a delivery into a file mailbox whose cap was lowered between two runs, which evicts all the surplus at once; a retention
//     scan; a size-limited memory store evicting on every delivery) on both stores, while a neighbour goroutine keeps using the bucket.
//        operation-returns               as above
//        listener-sees-every-event-once  after a sentinel event has come through the listener's FIFO: exactly one call per removed message
//        store-contract                  the purged mailbox is empty, the capped one holds exactly its newest cap messages, what the
//                                        listeners added is listed, the neighbour is what its history says
//     (A Go listener that panics takes the process down by design of AsyncEventBroker — its worker does not recover; that is the
//     listener's fault, not the store's, so no panicking listener is generated.)

import (
	"bufio"
	"bytes"
	"context"
	"encoding/json"
	"fmt"
	"io"
	"math/rand"
	"net/mail"
	"os"
	"os/exec"
	"path/filepath"
	"runtime"
	"strconv"
	"strings"
	"sync"
	"sync/atomic"
	"time"

	"github.com/inbucket/inbucket/v3/pkg/config"
	"github.com/inbucket/inbucket/v3/pkg/extension"
	"github.com/inbucket/inbucket/v3/pkg/extension/event"
	"github.com/inbucket/inbucket/v3/pkg/message"
	"github.com/inbucket/inbucket/v3/pkg/policy"
	"github.com/inbucket/inbucket/v3/pkg/storage"
	"github.com/inbucket/inbucket/v3/pkg/storage/file"
	"github.com/inbucket/inbucket/v3/pkg/storage/mem"
	"github.com/inbucket/inbucket/v3/pkg/stringutil"
	"github.com/rs/zerolog"
	"github.com/rs/zerolog/log"

	"verif/harness/internal/core"
)

const c09wEnv = "VERIF_C09W_CHILD"

func init() {
	prev := extra["C09"]
	extra["C09"] = func(c *core.Ctx) {
		if prev != nil {
			prev(c)
		}
		c09Wedge(c)
	}
	register("C09W", func(c *core.Ctx) {
		c.Res.Rule = "the returns-legs of C09 alone (for the builder's use)"
		c09Wedge(c)
	})
	if js := os.Getenv(c09wEnv); js != "" {
		c09wChildMain(js)
		os.Exit(0)
	}
}

type c09wSpec struct {
	Kind    string `json:"kind"` // fault | listener
	Seed    int64  `json:"seed"`
	Shard   int    `json:"shard"`
	From    int    `json:"from"`
	To      int    `json:"to"`
	Work    string `json:"work"`
	LimitMs int    `json:"limit_ms"` // watchdog limit per operation
	Big     bool   `json:"big"`      // thorough tier: the large sizes more often
}

func (sp c09wSpec) json() string { b, _ := json.Marshal(sp); return string(b) }

// one line per finished scenario
type c09wDone struct {
	Key      string         `json:"key"`
	NT       bool           `json:"nt"`
	Compared int            `json:"compared"`
	H        map[string]int `json:"h"`
}

// ================================================================================================================ parent

func c09Wedge(c *core.Ctx) {
	self, err := os.Executable()
	if err != nil {
		self = os.Args[0]
	}
	work := c.Workdir
	if work == "" {
		work = os.TempDir()
	}
	start := time.Now()
	var batches []c09wSpec
	nFault, nLis := c.Scale(42, 600), c.Scale(32, 320)
	shF, shL := c.Scale(3, 6), c.Scale(8, 10)
	for s := 0; s < shF; s++ {
		batches = append(batches, c09wSpec{Kind: "fault", Shard: s, From: s * nFault / shF, To: (s + 1) * nFault / shF})
	}
	for s := 0; s < shL; s++ {
		batches = append(batches, c09wSpec{Kind: "listener", Shard: s, From: s * nLis / shL, To: (s + 1) * nLis / shL})
	}
	for i := range batches {
		b := &batches[i]
		b.Work = work
		b.Seed = c.SubRng("c09w-"+b.Kind).Int63() >> 8 // one seed per kind: scenario idx decides, not the shard
		b.LimitMs = 8000
		b.Big = c.Thorough()
	}
	var abnormal atomic.Int64
	var slowMu sync.Mutex
	slowest, slowestWhat := 0.0, ""
	core.Parallel(len(batches), 11, func(i int) {
		sp := batches[i]
		t0 := time.Now()
		defer func() {
			slowMu.Lock()
			if d := time.Since(t0).Seconds(); d > slowest {
				slowest, slowestWhat = d, fmt.Sprintf("%s shard %d (scenarios %d..%d)", sp.Kind, sp.Shard, batches[i].From, batches[i].To-1)
			}
			slowMu.Unlock()
		}()
		for attempt := 0; attempt < 4 && sp.From < sp.To; attempt++ {
			last, bad := c09wRunChild(c, self, sp)
			if !bad {
				return
			}
			abnormal.Add(1)
			if last < 0 {
				return
			}
			sp.From = last + 1
			if c.Enough() {
				return
			}
		}
	})
	c.Note("c09 returns-legs: %d child batches, %d ended abnormally, wall %.1fs, slowest batch %.1fs = %s (euid %d: the read-only-directory obstruction is %s)",
		len(batches), abnormal.Load(), time.Since(start).Seconds(), slowest, slowestWhat, os.Geteuid(),
		map[bool]string{true: "skipped, root ignores permissions", false: "generated"}[os.Geteuid() == 0])
}

func c09wRunChild(c *core.Ctx, self string, sp c09wSpec) (lastBegun int, abnormal bool) {
	deadline := 60*time.Second + time.Duration(sp.To-sp.From)*2*time.Second
	ctx, cancel := context.WithTimeout(context.Background(), deadline)
	defer cancel()
	cmd := exec.CommandContext(ctx, self)
	gorace := strings.TrimSpace(os.Getenv("GORACE") + " atexit_sleep_ms=50")
	cmd.Env = append(os.Environ(), c09wEnv+"="+sp.json(), "GORACE="+gorace)
	var stdout, stderr bytes.Buffer
	cmd.Stdout = &stdout
	cmd.Stderr = &stderr
	cmd.WaitDelay = 2 * time.Second
	runErr := cmd.Run()
	timedOut := ctx.Err() == context.DeadlineExceeded
	exit := 0
	if runErr != nil {
		exit = -1
		if ee, ok := runErr.(*exec.ExitError); ok {
			exit = ee.ExitCode()
		}
	}
	specLine := "child batch: " + c09wEnv + "='" + sp.json() + "'"
	lastBegun = -1
	lastDescr := ""
	sawEnd := false
	sc := bufio.NewScanner(bytes.NewReader(stdout.Bytes()))
	sc.Buffer(make([]byte, 1<<20), 1<<24)
	for sc.Scan() {
		l := sc.Text()
		switch {
		case strings.HasPrefix(l, "B "):
			f := strings.SplitN(l[2:], " ", 2)
			lastBegun, _ = strconv.Atoi(f[0])
			if len(f) == 2 {
				lastDescr = f[1]
			}
		case strings.HasPrefix(l, "C "):
			var d c09wDone
			if json.Unmarshal([]byte(l[2:]), &d) == nil {
				c.Count(d.Key, d.NT)
				c.Compared(d.Compared)
				for k, n := range d.H {
					for i := 0; i < n; i++ {
						c.H(k)
					}
				}
			}
		case strings.HasPrefix(l, "F "):
			f := strings.SplitN(l[2:], " ", 2)
			oracle, detail, cas := f[0], "", ""
			if len(f) == 2 {
				rest := f[1]
				if q, err := strconv.QuotedPrefix(rest); err == nil {
					detail, _ = strconv.Unquote(q)
					rest = strings.TrimSpace(rest[len(q):])
					if u, err := strconv.Unquote(rest); err == nil {
						cas = u
					}
				} else {
					detail = rest
				}
			}
			c.Fail(oracle, []string{cas, specLine + " (replay one scenario: set from=idx, to=idx+1)"}, detail, "")
		case l == "E":
			sawEnd = true
		}
	}
	errs := stderr.String()
	if strings.Contains(errs, "WARNING: DATA RACE") {
		c.Fail("race-free", []string{specLine}, fmt.Sprintf("the race detector reported %d data race(s) in the child; first: %s",
			strings.Count(errs, "WARNING: DATA RACE"), c09RaceExcerpt(errs)), "")
	}
	inflight := fmt.Sprintf("in flight: scenario idx=%d %s", lastBegun, lastDescr)
	switch {
	case timedOut:
		c.Fail("operation-returns", []string{inflight, specLine}, fmt.Sprintf("the child did not finish within %v and was killed (its own watchdog did not fire); stderr tail: %s", deadline, c09Tail(errs, 1200)), "")
		return lastBegun, true
	case exit == 3:
		return lastBegun, true // the child's watchdog fired: its F line is reported above
	case (exit == 0 || exit == 66) && sawEnd:
		return lastBegun, false
	default:
		c.Fail("no-crash", []string{inflight, specLine}, fmt.Sprintf("child process died (exit status %d, run error %v); stderr tail: %s", exit, runErr, c09Tail(errs, 2500)), "")
		return lastBegun, true
	}
}

// ================================================================================================================ child: watchdog

type c09wSlot struct {
	since atomic.Int64 // unix nanos when the operation in flight was called; 0 = none
	what  atomic.Value // string
	limit atomic.Int64 // own limit in nanos (0 = the default)
}

type c09wWatch struct {
	mu       sync.Mutex
	slots    []*c09wSlot
	limit    time.Duration
	scenario atomic.Value // string: the failing input
}

func (w *c09wWatch) slot() *c09wSlot {
	s := &c09wSlot{}
	w.mu.Lock()
	w.slots = append(w.slots, s)
	w.mu.Unlock()
	return s
}

func (w *c09wWatch) reset() {
	w.mu.Lock()
	w.slots = nil
	w.mu.Unlock()
}

// call runs one store operation under the watchdog.
func (s *c09wSlot) call(what string, f func()) {
	s.what.Store(what)
	s.since.Store(time.Now().UnixNano())
	f()
	s.since.Store(0)
}

// c09wDump: the goroutines standing in the store or the broker, a few frames each.
func c09wDump() string {
	buf := make([]byte, 4<<20)
	n := runtime.Stack(buf, true)
	var out []string
	for _, g := range strings.Split(string(buf[:n]), "\n\n") {
		if !strings.Contains(g, "/pkg/storage") && !strings.Contains(g, "/pkg/extension") {
			continue
		}
		lines := strings.Split(g, "\n")
		var fr []string
		for i := 1; i < len(lines) && len(fr) < 7; i += 2 {
			f := strings.TrimSpace(lines[i])
			if j := strings.LastIndex(f, "("); j > 0 {
				f = f[:j]
			}
			f = strings.TrimPrefix(f, "github.com/inbucket/inbucket/v3/pkg/")
			fr = append(fr, f)
		}
		out = append(out, lines[0]+" "+strings.Join(fr, " < "))
		if len(out) >= 14 {
			out = append(out, "…")
			break
		}
	}
	return strings.Join(out, " || ")
}

func (w *c09wWatch) start() {
	go func() {
		for {
			time.Sleep(100 * time.Millisecond)
			now := time.Now().UnixNano()
			w.mu.Lock()
			slots := append([]*c09wSlot{}, w.slots...)
			w.mu.Unlock()
			var stuck []string
			for _, s := range slots {
				since := s.since.Load()
				lim := int64(w.limit)
				if l := s.limit.Load(); l > 0 {
					lim = l
				}
				if since != 0 && now-since > lim {
					what, _ := s.what.Load().(string)
					stuck = append(stuck, fmt.Sprintf("%s (called %.1fs ago)", what, float64(now-since)/1e9))
				}
			}
			if len(stuck) == 0 {
				continue
			}
			// everything else in flight, for the picture
			var flying []string
			for _, s := range slots {
				if since := s.since.Load(); since != 0 && now-since <= int64(w.limit) {
					what, _ := s.what.Load().(string)
					flying = append(flying, fmt.Sprintf("%s (%.1fs)", what, float64(now-since)/1e9))
				}
			}
			scen, _ := w.scenario.Load().(string)
			c09Fail("operation-returns", fmt.Sprintf("%d store operation(s) did not return within %v: %s; also in flight: %v; goroutines in the store / broker: %s",
				len(stuck), w.limit, strings.Join(stuck, "; "), flying, c09wDump()), scen)
			os.Exit(3)
		}
	}()
}

// ================================================================================================================ child: common

func c09wChildMain(js string) {
	zerolog.SetGlobalLevel(zerolog.Disabled)
	log.Logger = zerolog.Nop()
	var sp c09wSpec
	if err := json.Unmarshal([]byte(js), &sp); err != nil {
		fmt.Fprintln(os.Stderr, "c09w child: bad spec:", err)
		os.Exit(4)
	}
	w := &c09wWatch{limit: time.Duration(sp.LimitMs) * time.Millisecond}
	if w.limit <= 0 {
		w.limit = 6 * time.Second
	}
	w.start()
	for idx := sp.From; idx < sp.To; idx++ {
		w.reset()
		switch sp.Kind {
		case "fault":
			c09wFault(sp, idx, w)
		case "listener":
			c09wListener(sp, idx, w)
		default:
			fmt.Fprintln(os.Stderr, "c09w child: unknown kind", sp.Kind)
			os.Exit(4)
		}
	}
	c09Out("E")
}

func c09wBody(tok int) []byte {
	return []byte(fmt.Sprintf("Subject: w%d\r\n\r\nbody of %d\r\n", tok, tok))
}

func c09wMsg(box string, tok int) *message.Delivery {
	return &message.Delivery{Meta: event.MessageMetadata{Mailbox: box, From: &mail.Address{Address: "s@src.net"},
		To: []*mail.Address{{Address: "r@dest.org"}}, Date: time.Now(), Subject: "w" + strconv.Itoa(tok)},
		Reader: io.NopCloser(bytes.NewReader(c09wBody(tok)))}
}

func c09wTok(m storage.Message) int {
	s := m.Subject()
	if !strings.HasPrefix(s, "w") {
		return -1
	}
	n, err := strconv.Atoi(s[1:])
	if err != nil {
		return -1
	}
	return n
}

// c09wReadable: the listed message opens and carries the body that was delivered under its token.
func c09wReadable(m storage.Message) string {
	rc, err := m.Source()
	if err != nil {
		return "Source(): " + err.Error()
	}
	defer rc.Close()
	b, err := io.ReadAll(rc)
	if err != nil {
		return "read: " + err.Error()
	}
	// (StoreManager.Deliver puts Return-Path and Received in front of what it was given)
	if tok := c09wTok(m); tok < 0 || !bytes.HasSuffix(b, c09wBody(tok)) {
		return fmt.Sprintf("content of message %s (subject %q) is %q", m.ID(), m.Subject(), c09wTrunc(string(b), 120))
	}
	return ""
}

func c09wTrunc(s string, n int) string {
	if len(s) > n {
		return s[:n] + "…"
	}
	return s
}

// c09wSeq: one mailbox used by ONE goroutine: what it must list is the sequential history.
type c09wSeq struct {
	box  string
	cap  int
	ids  []string
	toks []int
}

func (q *c09wSeq) added(id string, tok int) {
	if q.cap > 0 {
		for len(q.ids) >= q.cap {
			q.ids, q.toks = q.ids[1:], q.toks[1:]
		}
	}
	q.ids, q.toks = append(q.ids, id), append(q.toks, tok)
}

func (q *c09wSeq) removed(id string) {
	for i, x := range q.ids {
		if x == id {
			q.ids = append(append([]string{}, q.ids[:i]...), q.ids[i+1:]...)
			q.toks = append(append([]int{}, q.toks[:i]...), q.toks[i+1:]...)
			return
		}
	}
}

// check compares a listing with the history; "" = equal.
func (q *c09wSeq) check(ms []storage.Message) string {
	got := []string{}
	for _, m := range ms {
		got = append(got, m.ID())
	}
	if strings.Join(got, ",") != strings.Join(q.ids, ",") {
		return fmt.Sprintf("mailbox %q lists [%s], its own history says [%s]", q.box, strings.Join(got, ","), strings.Join(q.ids, ","))
	}
	for i, m := range ms {
		if c09wTok(m) != q.toks[i] {
			return fmt.Sprintf("mailbox %q: message %s carries subject %q, delivered as w%d", q.box, m.ID(), m.Subject(), q.toks[i])
		}
		if why := c09wReadable(m); why != "" {
			return fmt.Sprintf("mailbox %q: %s", q.box, why)
		}
	}
	return ""
}

// c09wBystander: a goroutine's worth of ordinary work on a mailbox nobody else touches; every call watched, every answer checked.
// lenient (a size-limited memory store evicts from every mailbox): only deliveries and listings, only "no error" is demanded.
func c09wBystander(st storage.Store, q *c09wSeq, r *rand.Rand, n int, sl *c09wSlot, tokBase int, oracle string, scen string, ops *atomic.Int64, lenient bool) {
	for i := 0; i < n; i++ {
		k := r.Intn(10)
		if lenient && k >= 4 {
			k = 9
		}
		switch {
		case k < 4:
			tok := tokBase + i
			var id string
			var err error
			sl.call(fmt.Sprintf("AddMessage(%q)", q.box), func() { id, err = st.AddMessage(c09wMsg(q.box, tok)) })
			if err != nil {
				c09Fail(oracle, fmt.Sprintf("AddMessage to mailbox %q failed: %v", q.box, err), scen)
				return
			}
			q.added(id, tok)
		case k < 6 && len(q.ids) > 0:
			id := q.ids[r.Intn(len(q.ids))]
			var err error
			sl.call(fmt.Sprintf("RemoveMessage(%q, %s)", q.box, id), func() { err = st.RemoveMessage(q.box, id) })
			if err != nil {
				c09Fail(oracle, fmt.Sprintf("RemoveMessage(%q, %s) failed: %v", q.box, id, err), scen)
				return
			}
			q.removed(id)
		case k < 7 && len(q.ids) > 0:
			id := q.ids[r.Intn(len(q.ids))]
			var err error
			sl.call(fmt.Sprintf("GetMessage(%q, %s)", q.box, id), func() { _, err = st.GetMessage(q.box, id) })
			if err != nil {
				c09Fail(oracle, fmt.Sprintf("GetMessage(%q, %s) failed: %v", q.box, id, err), scen)
				return
			}
		default:
			var ms []storage.Message
			var err error
			sl.call(fmt.Sprintf("GetMessages(%q)", q.box), func() { ms, err = st.GetMessages(q.box) })
			if err != nil {
				c09Fail(oracle, fmt.Sprintf("GetMessages(%q) failed: %v", q.box, err), scen)
				return
			}
			if why := q.check(ms); why != "" && !lenient {
				c09Fail(oracle, why, scen)
				return
			}
		}
		ops.Add(1)
	}
}

func c09wMboxDir(root, name string) string {
	h := stringutil.HashMailboxName(name)
	return filepath.Join(root, "mail", h[0:3], h[0:6], h)
}

// ================================================================================================================ child: (i) fault

var c09wHookMu sync.Mutex

func c09wFaultKinds() []string {
	k := []string{"index-tmp-dir", "index-tmp-dir", "index-tmp-full", "raw-create", "unlink-raw"}
	if _, err := os.Stat("/dev/full"); err != nil {
		k = []string{"index-tmp-dir", "index-tmp-dir", "raw-create", "unlink-raw"}
	}
	if os.Geteuid() != 0 {
		k = append(k, "readonly-dir")
	}
	return k
}

func c09wFault(sp c09wSpec, idx int, w *c09wWatch) {
	r := rand.New(rand.NewSource(sp.Seed + int64(idx)*1000003))
	cap := []int{1, 2, 3, 5}[r.Intn(4)]
	kinds := c09wFaultKinds()
	kind := kinds[r.Intn(len(kinds))]
	pool := append([]string{}, collidePool()...)
	r.Shuffle(len(pool), func(i, j int) { pool[i], pool[j] = pool[j], pool[i] })
	target, neighbour, other := pool[0], pool[1], c09Other()
	nWorkers := 2 + r.Intn(2)
	nOps := 4 + r.Intn(5)
	over := r.Intn(3) // deliveries beyond the cap while filling (the mailbox is at its cap either way)
	scen := fmt.Sprintf("fault scenario idx=%d: file store cap=%d; mailbox %q filled with %d deliveries (holds %d = its cap), neighbour %q (same lock bucket %s), %q (bucket %s); obstruction %s on the directory of %q, persistent; then %d goroutines x %d random operations on %q, one on each of the other two mailboxes, one VisitMailboxes",
		idx, cap, target, cap+over, cap, neighbour, c09Prefix(target), other, c09Prefix(other), kind, target, nWorkers, nOps, target)
	c09Out("B %d %s", idx, scen)
	w.scenario.Store(scen)
	h := map[string]int{"c09w:fault": 1, "c09w:fault:kind=" + kind: 1, fmt.Sprintf("c09w:fault:cap=%d", cap): 1}
	root := filepath.Join(sp.Work, fmt.Sprintf("c09w-f-%d-%d", os.Getpid(), idx))
	os.MkdirAll(root, 0o755)
	defer os.RemoveAll(root)
	host := extension.NewHost()
	st, err := file.New(config.Storage{MailboxMsgCap: cap, Params: map[string]string{"path": root}}, host)
	if err != nil {
		c09Fail("setup", err.Error(), scen)
		return
	}
	main := w.slot()
	var ops atomic.Int64

	// ---- fill
	acked := map[string]int{} // ids ever acknowledged for the target -> token
	var ackMu sync.Mutex
	tok := idx * 100000
	for i := 0; i < cap+over; i++ {
		tok++
		var id string
		t := tok
		main.call(fmt.Sprintf("AddMessage(%q) [fill]", target), func() { id, err = st.AddMessage(c09wMsg(target, t)) })
		if err != nil {
			c09Fail("setup", "fill: "+err.Error(), scen)
			return
		}
		acked[id] = t
	}
	qn := &c09wSeq{box: neighbour, cap: cap}
	qo := &c09wSeq{box: other, cap: cap}
	for _, q := range []*c09wSeq{qn, qo} {
		for i, n := 0, r.Intn(cap+2); i < n; i++ {
			tok++
			id, err := st.AddMessage(c09wMsg(q.box, tok))
			if err != nil {
				c09Fail("setup", "fill: "+err.Error(), scen)
				return
			}
			q.added(id, tok)
		}
	}

	// ---- the obstruction
	tdir := c09wMboxDir(root, target)
	var on atomic.Bool
	c09wHookMu.Lock()
	defer c09wHookMu.Unlock()
	var refused atomic.Int64
	file.VerifStepHook = func(step, path string) {
		if !on.Load() || !strings.HasPrefix(path, tdir+string(os.PathSeparator)) {
			return
		}
		switch {
		case kind == "index-tmp-dir" && step == "create-tmp":
			os.MkdirAll(path, 0o755)
			refused.Add(1)
		case kind == "index-tmp-full" && step == "create-tmp":
			os.RemoveAll(path)
			os.Symlink("/dev/full", path)
			refused.Add(1)
		case kind == "raw-create" && step == "create-raw":
			os.MkdirAll(path, 0o755)
			refused.Add(1)
		case kind == "unlink-raw" && step == "unlink-raw":
			os.Remove(path)
			os.MkdirAll(filepath.Join(path, "keep"), 0o755)
			refused.Add(1)
		}
	}
	defer func() { file.VerifStepHook = nil }()
	if kind == "readonly-dir" {
		os.Chmod(tdir, 0o555)
	}
	on.Store(true)

	// ---- the phase
	var wg sync.WaitGroup
	kindsSeen := map[string]int{}
	var kmu sync.Mutex
	note := func(k string) { kmu.Lock(); kindsSeen[k]++; kmu.Unlock() }
	for g := 0; g < nWorkers; g++ {
		wg.Add(1)
		gr := rand.New(rand.NewSource(r.Int63()))
		sl := w.slot()
		base := tok + 1000*(g+1)
		go func() {
			defer wg.Done()
			for i := 0; i < nOps; i++ {
				res := "ok"
				switch k := gr.Intn(12); {
				case k < 5:
					var id string
					var err error
					t := base + i
					sl.call(fmt.Sprintf("AddMessage(%q)", target), func() { id, err = st.AddMessage(c09wMsg(target, t)) })
					if err != nil {
						res = "err"
					} else {
						ackMu.Lock()
						acked[id] = t
						ackMu.Unlock()
					}
					note("add:" + res)
				case k < 7:
					var ms []storage.Message
					sl.call(fmt.Sprintf("GetMessages(%q)", target), func() { ms, _ = st.GetMessages(target) })
					if len(ms) > 0 {
						id := ms[gr.Intn(len(ms))].ID()
						var err error
						sl.call(fmt.Sprintf("RemoveMessage(%q, %s)", target, id), func() { err = st.RemoveMessage(target, id) })
						if err != nil {
							res = "err"
						}
						note("remove:" + res)
					}
				case k < 8:
					var err error
					sl.call(fmt.Sprintf("PurgeMessages(%q)", target), func() { err = st.PurgeMessages(target) })
					if err != nil {
						res = "err"
					}
					note("purge:" + res)
				case k < 9:
					var ms []storage.Message
					sl.call(fmt.Sprintf("GetMessages(%q)", target), func() { ms, _ = st.GetMessages(target) })
					if len(ms) > 0 {
						id := ms[gr.Intn(len(ms))].ID()
						var err error
						sl.call(fmt.Sprintf("MarkSeen(%q, %s)", target, id), func() { err = st.MarkSeen(target, id) })
						if err != nil {
							res = "err"
						}
						note("seen:" + res)
					}
				case k < 10:
					var err error
					sl.call(fmt.Sprintf("GetMessage(%q, latest)", target), func() { _, err = st.GetMessage(target, "latest") })
					if err != nil {
						res = "err"
					}
					note("get:" + res)
				default:
					var err error
					sl.call(fmt.Sprintf("GetMessages(%q)", target), func() { _, err = st.GetMessages(target) })
					if err != nil {
						res = "err"
					}
					note("list:" + res)
				}
				ops.Add(1)
			}
		}()
	}
	for i, q := range []*c09wSeq{qn, qo} {
		wg.Add(1)
		q := q
		gr := rand.New(rand.NewSource(r.Int63()))
		sl := w.slot()
		base := tok + 50000 + 1000*i
		go func() {
			defer wg.Done()
			c09wBystander(st, q, gr, nOps+2, sl, base, "other-mailboxes-unaffected", scen, &ops, false)
		}()
	}
	wg.Add(1)
	vsl := w.slot()
	go func() {
		defer wg.Done()
		var err error
		vsl.call("VisitMailboxes", func() { err = st.VisitMailboxes(func([]storage.Message) bool { return true }) })
		if err != nil {
			note("visit:err")
		} else {
			note("visit:ok")
		}
		ops.Add(1)
	}()
	main.limit.Store(int64(w.limit) * 4)
	main.call("waiting for the goroutines of the phase", func() { wg.Wait() })
	main.limit.Store(0)

	// ---- lift
	on.Store(false)
	if kind == "readonly-dir" {
		os.Chmod(tdir, 0o755)
	}
	if ents, err := os.ReadDir(tdir); err == nil {
		for _, e := range ents {
			p := filepath.Join(tdir, e.Name())
			if e.Name() == "index.gob.tmp" || (strings.HasSuffix(e.Name(), ".raw") && e.IsDir()) {
				os.RemoveAll(p)
			}
		}
	}

	// ---- contracts
	for _, q := range []*c09wSeq{qn, qo} {
		var ms []storage.Message
		var err error
		main.call(fmt.Sprintf("GetMessages(%q) [after]", q.box), func() { ms, err = st.GetMessages(q.box) })
		if err != nil {
			c09Fail("other-mailboxes-unaffected", fmt.Sprintf("GetMessages(%q) after the phase: %v", q.box, err), scen)
		} else if why := q.check(ms); why != "" {
			c09Fail("other-mailboxes-unaffected", "after the phase: "+why, scen)
		}
	}
	var ms []storage.Message
	main.call(fmt.Sprintf("GetMessages(%q) [after the obstruction was lifted]", target), func() { ms, err = st.GetMessages(target) })
	if err != nil {
		c09Fail("store-contract", fmt.Sprintf("after the obstruction was lifted GetMessages(%q) fails: %v", target, err), scen)
	} else {
		seen := map[string]bool{}
		for _, m := range ms {
			if seen[m.ID()] {
				c09Fail("store-contract", fmt.Sprintf("mailbox %q lists id %s twice", target, m.ID()), scen)
			}
			seen[m.ID()] = true
			ackMu.Lock()
			t, ok := acked[m.ID()]
			ackMu.Unlock()
			if !ok {
				c09Fail("store-contract", fmt.Sprintf("mailbox %q lists id %s (subject %q), which no AddMessage ever acknowledged", target, m.ID(), m.Subject()), scen)
			} else if t != c09wTok(m) {
				c09Fail("store-contract", fmt.Sprintf("mailbox %q: id %s was acknowledged for w%d, is listed with subject %q", target, m.ID(), t, m.Subject()), scen)
			} else if why := c09wReadable(m); why != "" {
				c09Fail("store-contract", fmt.Sprintf("mailbox %q after the obstruction was lifted: %s", target, why), scen)
			}
		}
		if len(ms) > cap {
			c09Fail("store-contract", fmt.Sprintf("mailbox %q lists %d messages with cap %d", target, len(ms), cap), scen)
		}
	}
	// a fresh run: cap+1 deliveries, all acknowledged, the newest cap listed
	qt := &c09wSeq{box: target, cap: cap}
	for _, m := range ms {
		qt.added(m.ID(), c09wTok(m))
	}
	fresh := true
	for i := 0; i <= cap && fresh; i++ {
		t := tok + 90000 + i
		var id string
		main.call(fmt.Sprintf("AddMessage(%q) [after the obstruction was lifted]", target), func() { id, err = st.AddMessage(c09wMsg(target, t)) })
		if err != nil {
			c09Fail("store-contract", fmt.Sprintf("after the obstruction was lifted AddMessage(%q) still fails: %v", target, err), scen)
			fresh = false
		} else {
			qt.added(id, t)
		}
	}
	if fresh {
		main.call(fmt.Sprintf("GetMessages(%q) [fresh run]", target), func() { ms, err = st.GetMessages(target) })
		if err != nil {
			c09Fail("store-contract", fmt.Sprintf("GetMessages(%q): %v", target, err), scen)
		} else if why := qt.check(ms); why != "" {
			c09Fail("store-contract", "after the obstruction was lifted and cap+1 fresh deliveries: "+why, scen)
		}
	}
	kmu.Lock()
	for k, n := range kindsSeen {
		h["c09w:fault:op:"+k] += n
	}
	kmu.Unlock()
	if refused.Load() > 0 {
		h["c09w:fault:with-refused-calls"] = 1
	}
	h["c09w:fault:refused-calls"] = int(refused.Load())
	b, _ := json.Marshal(c09wDone{Key: scen, NT: refused.Load() > 0, Compared: int(ops.Load()) + 3, H: h})
	c09Out("C %s", b)
}

// ================================================================================================================ child: (ii) listeners

type c09wLis struct {
	name   string
	beh    string
	mu     sync.Mutex
	seen   map[string]int // "box/id" -> calls
	errs   []string
	added  int
	sent   chan string // sentinel ids
	sinkQ  *c09wSeq    // what this listener's AddMessage calls must have left in its sink (single writer: the listener's worker)
	sinkMu sync.Mutex
}

const c09wSentinelBox = "\x00c09w-sentinel"

func c09wSizes(r *rand.Rand, big bool) int {
	small := []int{1, 2, 5, 20, 60, 99, 100, 101, 102, 103, 110, 130, 150}
	large := []int{200, 250, 320, 400}
	// most scenarios sit around the interesting hundred; filling a file mailbox costs n index rewrites, so the large ones are few
	switch k := r.Intn(100); {
	case k < 70:
		return small[r.Intn(len(small))]
	case k < 75 || (big && k < 82):
		if !big {
			return large[r.Intn(2)]
		}
		return large[r.Intn(len(large))]
	}
	return 105 + r.Intn(60)
}

func c09wListener(sp c09wSpec, idx int, w *c09wWatch) {
	r := rand.New(rand.NewSource(sp.Seed + int64(idx)*1000003))
	pool := append([]string{}, collidePool()...)
	r.Shuffle(len(pool), func(i, j int) { pool[i], pool[j] = pool[j], pool[i] })
	target, neighbour, sinkSame, sinkOther := pool[0], pool[1], pool[2], c09Other()
	storeKind := "file"
	if r.Intn(10) < 3 {
		storeKind = "mem"
	}
	opKinds := []string{"purge", "purge", "purge", "lowered-cap-delivery", "retention-scan"}
	if storeKind == "mem" {
		opKinds = []string{"purge", "purge", "size-evictions", "retention-scan"}
	}
	opKind := opKinds[r.Intn(len(opKinds))]
	n := c09wSizes(r, sp.Big)
	if (opKind == "lowered-cap-delivery" || opKind == "retention-scan") && n > 160 {
		n = 100 + r.Intn(60) // every eviction rewrites the index: keep the quadratic part small
	}
	if opKind == "size-evictions" && n > 150 {
		n = 150
	}
	behs := []string{"reads-same-mailbox", "reads-same-mailbox", "reads-neighbour", "gets-message", "adds-same-bucket", "adds-other-bucket", "slow", "records"}
	nl := 1 + r.Intn(2)
	var lis []*c09wLis
	for i := 0; i < nl; i++ {
		beh := behs[r.Intn(len(behs))]
		for _, o := range lis { // one sink per bucket: at most one listener adds to each
			if o.beh == beh && strings.HasPrefix(beh, "adds-") {
				beh = "reads-same-mailbox"
			}
		}
		lis = append(lis, &c09wLis{name: fmt.Sprintf("lis%d", i), beh: beh, seen: map[string]int{}, sent: make(chan string, 4)})
	}
	viaManager := r.Intn(3) == 0 // deliveries of the scenario go through StoreManager.Deliver (emits AfterMessageStored)
	storedLis := viaManager && r.Intn(2) == 0
	cap := 0
	maxkb := 0
	newCap := 0
	switch opKind {
	case "lowered-cap-delivery":
		newCap = 1 + r.Intn(3)
	case "size-evictions":
		maxkb = 1 + r.Intn(3)
	default:
		if r.Intn(3) == 0 {
			cap = n + 5 + r.Intn(50) // a cap that does not bite in the target; the sinks may reach it
		}
	}
	var lb []string
	for _, l := range lis {
		lb = append(lb, l.beh)
	}
	scen := fmt.Sprintf("listener scenario idx=%d: %s store cap=%d maxkb=%d; AfterMessageDeleted listeners %v%s; mailbox %q holds %d messages; operation %s%s; meanwhile one goroutine works on neighbour %q (same lock bucket %s); sinks %q (same bucket) %q (bucket %s)",
		idx, storeKind, cap, maxkb, lb, map[bool]string{true: " + an AfterMessageStored listener that reads the store", false: ""}[storedLis], target, n, opKind,
		map[bool]string{true: fmt.Sprintf(" (store reopened with cap %d)", newCap), false: ""}[opKind == "lowered-cap-delivery"], neighbour, c09Prefix(target), sinkSame, sinkOther, c09Prefix(sinkOther))
	c09Out("B %d %s", idx, scen)
	w.scenario.Store(scen)
	h := map[string]int{"c09w:listener": 1, "c09w:listener:store=" + storeKind: 1, "c09w:listener:op=" + opKind: 1}
	for _, l := range lis {
		h["c09w:listener:beh="+l.beh]++
	}
	switch {
	case n <= 100:
		h["c09w:listener:events<=100"] = 1
	case n <= 103:
		h["c09w:listener:events=101..103"] = 1
	case n <= 200:
		h["c09w:listener:events=104..200"] = 1
	default:
		h["c09w:listener:events>200"] = 1
	}
	if viaManager {
		h["c09w:listener:via-manager"] = 1
	}
	root := filepath.Join(sp.Work, fmt.Sprintf("c09w-l-%d-%d", os.Getpid(), idx))
	os.MkdirAll(root, 0o755)
	defer os.RemoveAll(root)
	host := extension.NewHost()
	mk := func(cap int) (storage.Store, error) {
		cfg := config.Storage{MailboxMsgCap: cap, Params: map[string]string{}}
		if storeKind == "mem" {
			if maxkb > 0 {
				cfg.Params["maxkb"] = strconv.Itoa(maxkb)
			}
			return mem.New(cfg, host)
		}
		cfg.Params["path"] = root
		return file.New(cfg, host)
	}
	st, err := mk(cap)
	if err != nil {
		c09Fail("setup", err.Error(), scen)
		return
	}
	main := w.slot()
	var ops atomic.Int64
	tok := idx * 100000

	// ---- fill (no listener registered yet)
	old := time.Now().Add(-48 * time.Hour)
	var ids []string
	for i := 0; i < n; i++ {
		tok++
		d := c09wMsg(target, tok)
		if opKind == "retention-scan" {
			d.Meta.Date = old
		}
		var id string
		t := tok
		main.call(fmt.Sprintf("AddMessage(%q) [fill %d/%d]", target, i+1, n), func() { id, err = st.AddMessage(d) })
		if err != nil {
			c09Fail("setup", fmt.Sprintf("fill w%d: %v", t, err), scen)
			return
		}
		ids = append(ids, id)
	}
	qn := &c09wSeq{box: neighbour, cap: cap}
	for i, k := 0, r.Intn(4); i < k; i++ {
		tok++
		id, err := st.AddMessage(c09wMsg(neighbour, tok))
		if err != nil {
			c09Fail("setup", "fill: "+err.Error(), scen)
			return
		}
		qn.added(id, tok)
	}
	if opKind == "lowered-cap-delivery" {
		if st, err = mk(newCap); err != nil {
			c09Fail("setup", err.Error(), scen)
			return
		}
		qn.cap = newCap
	}
	effCap := cap
	if opKind == "lowered-cap-delivery" {
		effCap = newCap
	}

	// ---- listeners
	tokBase := tok + 10000
	for li, l := range lis {
		l := l
		sink := ""
		switch l.beh {
		case "adds-same-bucket":
			sink = sinkSame
		case "adds-other-bucket":
			sink = sinkOther
		}
		if sink != "" {
			l.sinkQ = &c09wSeq{box: sink, cap: effCap}
		}
		addTok := tokBase + 20000*li
		host.Events.AfterMessageDeleted.AddListener(l.name, func(m event.MessageMetadata) {
			if m.Mailbox == c09wSentinelBox {
				l.sent <- m.ID
				return
			}
			l.mu.Lock()
			l.seen[m.Mailbox+"/"+m.ID]++
			l.mu.Unlock()
			if m.Mailbox != target {
				return // evictions in the sinks and in the neighbour are recorded, not acted upon (no cascade)
			}
			var err error
			switch l.beh {
			case "reads-same-mailbox":
				_, err = st.GetMessages(m.Mailbox)
			case "reads-neighbour":
				_, err = st.GetMessages(neighbour)
			case "gets-message":
				if _, e := st.GetMessage(m.Mailbox, m.ID); e != nil && e != storage.ErrNotExist {
					err = e
				}
			case "adds-same-bucket", "adds-other-bucket":
				l.sinkMu.Lock()
				addTok++
				var id string
				id, err = st.AddMessage(c09wMsg(l.sinkQ.box, addTok))
				if err == nil {
					l.sinkQ.added(id, addTok)
					l.added++
				}
				l.sinkMu.Unlock()
			case "slow":
				if len(m.ID)%3 == 0 {
					time.Sleep(200 * time.Microsecond)
				}
				runtime.Gosched()
			}
			if err != nil {
				l.mu.Lock()
				if len(l.errs) < 3 {
					l.errs = append(l.errs, err.Error())
				}
				l.mu.Unlock()
			}
		})
	}
	var storedSeen atomic.Int64
	storedSent := make(chan string, 4)
	if storedLis {
		host.Events.AfterMessageStored.AddListener("stored0", func(m event.MessageMetadata) {
			if m.Mailbox == c09wSentinelBox {
				storedSent <- m.ID
				return
			}
			storedSeen.Add(1)
			st.GetMessages(m.Mailbox)
			st.GetMessage(m.Mailbox, m.ID)
		})
	}
	var mgr *message.StoreManager
	var ap *policy.Addressing
	var from *policy.Origin
	if viaManager {
		rootCfg := namingRoot("local")
		rootCfg.SMTP.DefaultAccept, rootCfg.SMTP.DefaultStore = true, true
		ap = &policy.Addressing{Config: rootCfg}
		mgr = &message.StoreManager{AddrPolicy: ap, Store: st, ExtHost: host}
		from, _ = ap.ParseOrigin("sender@example.org")
	}
	deliver := func(sl *c09wSlot, box string, t int) (string, error) {
		var id string
		var err error
		if mgr != nil {
			rc, e := ap.NewRecipient(box + "@example.com")
			if e != nil {
				return "", e
			}
			sl.call(fmt.Sprintf("StoreManager.Deliver(%q)", box), func() {
				err = mgr.Deliver(from, []*policy.Recipient{rc}, "Received: from harness", c09wBody(t))
			})
			return "", err
		}
		sl.call(fmt.Sprintf("AddMessage(%q)", box), func() { id, err = st.AddMessage(c09wMsg(box, t)) })
		return id, err
	}

	// ---- the operation, with a neighbour at work
	var wg sync.WaitGroup
	wg.Add(1)
	nsl := w.slot()
	ngr := rand.New(rand.NewSource(r.Int63()))
	if opKind == "lowered-cap-delivery" {
		// the neighbour's listing was made under the old cap: start its history from what the store lists now
		if ms, err := st.GetMessages(neighbour); err == nil {
			qn.ids, qn.toks = nil, nil
			for _, m := range ms {
				qn.ids, qn.toks = append(qn.ids, m.ID()), append(qn.toks, c09wTok(m))
			}
		}
	}
	go func() {
		defer wg.Done()
		c09wBystander(st, qn, ngr, 6+ngr.Intn(6), nsl, tok+5000, "other-mailboxes-unaffected", scen, &ops, maxkb > 0)
	}()
	expectGone := ids // the messages whose deleted event every listener must see once
	var expectLeft []string
	switch opKind {
	case "purge":
		main.call(fmt.Sprintf("PurgeMessages(%q) of %d messages", target, n), func() { err = st.PurgeMessages(target) })
		if err != nil {
			c09Fail("store-contract", fmt.Sprintf("PurgeMessages(%q): %v", target, err), scen)
		}
	case "lowered-cap-delivery":
		t := tok + 7000
		main.limit.Store(int64(w.limit) * 3) // one call, but it rewrites the index once per evicted message
		id, derr := deliver(main, target, t)
		main.limit.Store(0)
		if derr != nil {
			c09Fail("store-contract", fmt.Sprintf("the delivery into the over-full mailbox failed: %v", derr), scen)
		}
		// evicted: all but the newest newCap-1 of the old ones
		keep := newCap - 1
		if keep > len(ids) {
			keep = len(ids)
		}
		expectGone = ids[:len(ids)-keep]
		expectLeft = append(append([]string{}, ids[len(ids)-keep:]...), id)
	case "retention-scan":
		rs := storage.NewRetentionScanner(config.Storage{RetentionPeriod: time.Hour, RetentionSleep: 0}, st)
		main.limit.Store(int64(w.limit) * 3)
		main.call(fmt.Sprintf("RetentionScanner.DoScan over %d expired messages", n), func() { err = rs.DoScan(context.Background()) })
		main.limit.Store(0)
		if err != nil {
			c09Fail("store-contract", fmt.Sprintf("DoScan: %v", err), scen)
		}
	case "size-evictions":
		// n more deliveries of 600 bytes each into a store limited to maxkb KiB: every one evicts
		expectGone = nil
		pad := strings.Repeat("p", 560)
		for i := 0; i < n; i++ {
			d := c09wMsg(target, tok+7000+i)
			d.Reader = io.NopCloser(strings.NewReader(string(c09wBody(tok+7000+i)) + pad))
			main.call(fmt.Sprintf("AddMessage(%q) [%d/%d, store over its size limit]", target, i+1, n), func() { _, err = st.AddMessage(d) })
			if err != nil {
				c09Fail("store-contract", fmt.Sprintf("AddMessage under the size limit: %v", err), scen)
				break
			}
			ops.Add(1)
		}
	}
	ops.Add(1)
	main.limit.Store(int64(w.limit) * 2)
	main.call("waiting for the neighbour goroutine", func() { wg.Wait() })
	main.limit.Store(0)

	// ---- the listeners drain: a sentinel through each FIFO
	host.Events.AfterMessageDeleted.Emit(&event.MessageMetadata{Mailbox: c09wSentinelBox, ID: "s1"})
	if storedLis {
		host.Events.AfterMessageStored.Emit(&event.MessageMetadata{Mailbox: c09wSentinelBox, ID: "s1"})
	}
	drained := true
	main.limit.Store(int64(w.limit) * 3)
	for _, l := range lis {
		l := l
		main.call(fmt.Sprintf("waiting for listener %s (%s) to work through its queue", l.name, l.beh), func() {
			select {
			case <-l.sent:
			case <-time.After(w.limit * 2):
				drained = false
				c09Fail("listener-sees-every-event-once", fmt.Sprintf("listener %s (%s) did not reach the sentinel event within %v of the operation's return", l.name, l.beh, w.limit*2), scen)
			}
		})
	}
	if storedLis {
		main.call("waiting for the stored-listener to work through its queue", func() {
			select {
			case <-storedSent:
			case <-time.After(w.limit * 2):
				drained = false
				c09Fail("listener-sees-every-event-once", "the AfterMessageStored listener did not reach its sentinel", scen)
			}
		})
	}
	main.limit.Store(0)

	// ---- oracles
	compared := 0
	if drained {
		for _, l := range lis {
			l.mu.Lock()
			for _, id := range expectGone {
				compared++
				if k := l.seen[target+"/"+id]; k != 1 {
					c09Fail("listener-sees-every-event-once", fmt.Sprintf("listener %s (%s) was called %d times for the deletion of %s/%s (of %d messages removed by the operation)", l.name, l.beh, k, target, id, len(expectGone)), scen)
					break
				}
			}
			for _, id := range expectLeft {
				if k := l.seen[target+"/"+id]; k != 0 {
					c09Fail("listener-sees-every-event-once", fmt.Sprintf("listener %s was told %d times that %s/%s was deleted; it is listed", l.name, k, target, id), scen)
					break
				}
			}
			if len(l.errs) > 0 {
				c09Fail("other-mailboxes-unaffected", fmt.Sprintf("listener %s (%s): its own store calls failed: %v", l.name, l.beh, l.errs), scen)
			}
			l.mu.Unlock()
		}
	}
	var ms []storage.Message
	main.call(fmt.Sprintf("GetMessages(%q) [after]", target), func() { ms, err = st.GetMessages(target) })
	switch {
	case err != nil:
		c09Fail("store-contract", fmt.Sprintf("GetMessages(%q) after the operation: %v", target, err), scen)
	case opKind == "purge" || opKind == "retention-scan":
		if len(ms) != 0 {
			c09Fail("store-contract", fmt.Sprintf("mailbox %q lists %d messages after %s", target, len(ms), opKind), scen)
		}
	case opKind == "lowered-cap-delivery":
		if mgr != nil && len(ms) > 0 {
			expectLeft[len(expectLeft)-1] = ms[len(ms)-1].ID() // Deliver does not hand the id back
		}
		got := []string{}
		for _, m := range ms {
			got = append(got, m.ID())
		}
		if strings.Join(got, ",") != strings.Join(expectLeft, ",") {
			c09Fail("store-contract", fmt.Sprintf("mailbox %q (cap now %d) lists [%s] after the delivery, its newest messages are [%s]", target, newCap, strings.Join(got, ","), strings.Join(expectLeft, ",")), scen)
		}
		for _, m := range ms {
			if why := c09wReadable(m); why != "" {
				c09Fail("store-contract", why, scen)
			}
		}
	}
	compared += len(ms) + 1
	for _, l := range lis {
		if l.sinkQ == nil || !drained {
			continue
		}
		var sm []storage.Message
		main.call(fmt.Sprintf("GetMessages(%q) [sink of %s]", l.sinkQ.box, l.name), func() { sm, err = st.GetMessages(l.sinkQ.box) })
		if err != nil {
			c09Fail("store-contract", fmt.Sprintf("GetMessages(%q): %v", l.sinkQ.box, err), scen)
			continue
		}
		if maxkb > 0 {
			continue // the size enforcer may have evicted from the sink as well
		}
		l.sinkMu.Lock()
		if why := l.sinkQ.check(sm); why != "" {
			c09Fail("store-contract", fmt.Sprintf("what listener %s added from inside its calls (%d messages): %s", l.name, l.added, why), scen)
		}
		h["c09w:listener:added-by-listener"] += l.added
		l.sinkMu.Unlock()
		compared += len(sm)
	}
	if maxkb == 0 {
		var nm []storage.Message
		main.call(fmt.Sprintf("GetMessages(%q) [neighbour, after]", neighbour), func() { nm, err = st.GetMessages(neighbour) })
		if err != nil {
			c09Fail("other-mailboxes-unaffected", fmt.Sprintf("GetMessages(%q): %v", neighbour, err), scen)
		} else if why := qn.check(nm); why != "" {
			c09Fail("other-mailboxes-unaffected", "after the operation: "+why, scen)
		}
		compared += len(nm)
	}
	for _, l := range lis {
		host.Events.AfterMessageDeleted.RemoveListener(l.name)
	}
	if storedLis {
		host.Events.AfterMessageStored.RemoveListener("stored0")
		h["c09w:listener:stored-events-seen"] = int(storedSeen.Load())
	}
	h["c09w:listener:events-under-one-hold"] = len(expectGone)
	needs := false
	for _, l := range lis {
		needs = needs || (l.beh != "slow" && l.beh != "records")
	}
	b, _ := json.Marshal(c09wDone{Key: scen, NT: needs && n > 1, Compared: compared + int(ops.Load()), H: h})
	c09Out("C %s", b)
}
