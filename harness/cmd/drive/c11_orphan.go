package main

// C11 leg "the id of an interrupted delivery comes round again" (file store, implementation only).  A crash during a delivery after its content
// file was created leaves `<id>.raw` on disk with no index entry.  The id is wall-clock second + a process-wide counter that restarts with the
// process, so the restarted process can be handed exactly that id for its next delivery to that mailbox.  The property's sentences "every mailbox
// readable" and "accepts new mail for the affected mailbox afterwards" must hold for THAT delivery too: it is stored under the id, reads back its own
// bytes (the leftover is overwritten), and is listed.  The leg takes the crash image at the copy step of a real delivery (step hook), reopens it,
// rewinds the id counter (verif hook) to the interrupted delivery's value and delivers at once; when the second has not changed the new delivery gets
// the very id of the leftover file (counted: hit / missed because the clock moved on).  Runs after the parallel histories, alone in the process.
//   accepts-mail   the delivery on the recovered store succeeds, is listed last and reads back its own bytes

import (
	"bytes"
	"fmt"
	"io"
	"os"
	"path/filepath"
	"strconv"
	"strings"

	"github.com/inbucket/inbucket/v3/pkg/storage/file"

	"verif/harness/internal/core"
)

func init() {
	prev := extra["C11"]
	extra["C11"] = func(c *core.Ctx) {
		if prev != nil {
			prev(c)
		}
		c11Orphan(c)
	}
}

func c11Orphan(c *core.Ctx) {
	r := c.SubRng("c11-orphan")
	n := c.Scale(25, 300)
	saved := file.VerifStepHook
	defer func() { file.VerifStepHook = saved }()
	hits := 0
	for idx := 0; idx < n; idx++ {
		base := filepath.Join(c.Workdir, fmt.Sprintf("c11-orphan-%d-%d", c.Seed, idx))
		live, img := filepath.Join(base, "live"), filepath.Join(base, "img")
		os.MkdirAll(live, 0o755)
		cap := []int{0, 0, 3}[r.Intn(3)]
		be, err := newBackend("file", cap, 0, live)
		if err != nil {
			os.RemoveAll(base)
			continue
		}
		box := []string{"orphan", "Orphan.Box@example.com", "o"}[r.Intn(3)]
		trace := []string{fmt.Sprintf("# file store cap=%d mailbox %q", cap, box)}
		for k, m := 0, r.Intn(3); k < m; k++ {
			addRaw(be, storeOp{kind: "add", box: box, body: genBody(r, false), from: "a@src.net", subj: fmt.Sprintf("old-%d", k), date: 1700000000 + int64(k)})
		}
		at := []string{"copy-raw", "flush-raw", "close-raw"}[r.Intn(3)]
		orphan := ""
		file.VerifStepHook = func(step, path string) {
			if step == at && orphan == "" && strings.HasPrefix(path, live) {
				orphan = strings.TrimSuffix(filepath.Base(path), ".raw")
				if err := c11CopyTree(live, img); err != nil {
					orphan = "!" + err.Error()
				}
			}
		}
		_, err = addRaw(be, storeOp{kind: "add", box: box, body: genBody(r, true), from: "a@src.net", subj: "interrupted", date: 1700000100})
		file.VerifStepHook = nil
		if err != nil || orphan == "" || strings.HasPrefix(orphan, "!") {
			c.Note("c11-orphan: no image (%v, %q)", err, orphan)
			os.RemoveAll(base)
			continue
		}
		trace = append(trace, fmt.Sprintf("crash image taken at step %s of the delivery that was drawing id %s: %s.raw exists, the index does not list it", at, orphan, orphan))
		ctr, perr := strconv.Atoi(orphan[strings.LastIndex(orphan, "-")+1:])
		if perr != nil {
			os.RemoveAll(base)
			continue
		}
		st, err := c11Store(img, cap)
		if err != nil {
			c.Fail("visit-no-error", trace, "file.New on the image failed: "+err.Error(), "")
			os.RemoveAll(base)
			return
		}
		next := file.VerifNextID() // consumes `next`; the following draw would carry next+1
		file.VerifSkipIDs(((ctr-(next+1))%10000 + 10000) % 10000)
		probe := []byte(fmt.Sprintf("Subject: after the crash %d\r\n\r\nnew body %d\n", idx, r.Int()))
		h := &c11Hist{}
		id, err := st.AddMessage(h.delivery(box, probe, "probe@src.net", []string{"p@dest.org"}, "probe", 1800000000))
		trace = append(trace, fmt.Sprintf("restarted store, id counter at %04d: AddMessage(%q) -> id=%s err=%v", ctr, box, id, err))
		c.Compared(1)
		if id == orphan {
			hits++
			c.H("orphan:same-id-drawn")
		} else {
			c.H("orphan:clock-moved-on")
		}
		ok := true
		if err != nil {
			c.Fail("accepts-mail", trace, "a delivery to the recovered mailbox was refused: "+err.Error(), "")
			ok = false
		} else if ms, e := st.GetMessages(box); e != nil || len(ms) == 0 || ms[len(ms)-1].ID() != id {
			c.Fail("accepts-mail", trace, fmt.Sprintf("the new message %s is not listed last (error %v, %d listed)", id, e, len(ms)), "")
			ok = false
		} else {
			last := ms[len(ms)-1]
			rd, e := last.Source()
			var data []byte
			if e == nil {
				data, _ = io.ReadAll(rd)
				rd.Close()
			}
			if e != nil || !bytes.Equal(data, probe) || last.Size() != int64(len(probe)) {
				c.Fail("accepts-mail", trace, fmt.Sprintf("the new message reads %d bytes (error %v, Size %d), delivered %d", len(data), e, last.Size(), len(probe)), "")
				ok = false
			}
		}
		c.Count(strings.Join(trace, "\n"), id == orphan)
		os.RemoveAll(base)
		if !ok {
			return
		}
	}
	c.Note("c11-orphan: the recovered store drew the id of the leftover content file in %d of %d rounds", hits, n)
}
