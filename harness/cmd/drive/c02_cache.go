package main

// C02 leg "a revalidating reader" (implementation only, on C02's stack).  "All read interfaces agree with each other": a reader may be a browser or a
// caching proxy — an RFC 7232 client that keeps what it was served under a URL together with the validator the server gave it (ETag, Last-Modified) and
// asks again with If-None-Match / If-Modified-Since.  Whatever such a client ends up showing for a source URL — by the message's id or by the alias
// `latest` — must be what a plain request gets at that moment, also after more mail has arrived in the mailbox.
//   cached-reader-agrees   the body a revalidating client holds for a source URL equals the body of a plain GET of the same URL made right after

import (
	"bytes"
	"fmt"
	"io"
	"net/http"
	"net/mail"
	"time"

	"github.com/inbucket/inbucket/v3/pkg/extension/event"
	"github.com/inbucket/inbucket/v3/pkg/message"

	"verif/harness/internal/core"
)

type c02CacheEntry struct {
	etag, lastMod string
	body          []byte
}

// c02CachedGet: what a private cache answers for the URL (revalidating when it holds a validator); ok=false on transport errors
func c02CachedGet(cache map[string]*c02CacheEntry, base, path string) (status int, body []byte, revalidated bool, ok bool) {
	req, _ := http.NewRequest("GET", base+path, nil)
	e := cache[path]
	if e != nil && e.etag != "" {
		req.Header.Set("If-None-Match", e.etag)
	}
	if e != nil && e.lastMod != "" {
		req.Header.Set("If-Modified-Since", e.lastMod)
	}
	resp, err := http.DefaultClient.Do(req)
	if err != nil {
		return 0, nil, false, false
	}
	defer resp.Body.Close()
	b, _ := io.ReadAll(resp.Body)
	if resp.StatusCode == http.StatusNotModified && e != nil {
		return 200, e.body, true, true
	}
	if resp.StatusCode == 200 {
		if et, lm := resp.Header.Get("ETag"), resp.Header.Get("Last-Modified"); et != "" || lm != "" {
			cache[path] = &c02CacheEntry{etag: et, lastMod: lm, body: b}
		} else {
			delete(cache, path)
		}
	}
	return resp.StatusCode, b, false, true
}

func c02CacheOnStack(c *core.Ctx, st *c02Stack) {
	r := c.SubRng("c02-cache")
	n := c.Scale(30, 400)
	for idx := 0; idx < n; idx++ {
		mb := fmt.Sprintf("%sc02cache%d", []string{"m", "f"}[idx%2], idx)
		cache := map[string]*c02CacheEntry{}
		trace := []string{"mailbox=" + mb + " (a private HTTP cache that revalidates with the validators the server sends)"}
		ok := true
		for k, steps := 0, 2+r.Intn(3); k < steps && ok; k++ {
			body := append([]byte(fmt.Sprintf("Subject: cache %d-%d\r\n\r\n", idx, k)), genBody(r, r.Intn(4) == 0)...)
			d := &message.Delivery{Meta: event.MessageMetadata{Mailbox: mb, From: &mail.Address{Address: "a@src.net"}, Date: time.Now(), Subject: fmt.Sprintf("cache %d-%d", idx, k)},
				Reader: io.NopCloser(bytes.NewReader(body))}
			id, err := st.store.AddMessage(d)
			trace = append(trace, fmt.Sprintf("delivery %d -> id %s (%d bytes) %v", k, id, len(body), err))
			if err != nil {
				break
			}
			for _, path := range []string{"/api/v1/mailbox/" + mb + "/latest/source", "/serve/mailbox/" + mb + "/latest/source",
				"/api/v1/mailbox/" + mb + "/" + id + "/source", "/serve/mailbox/" + mb + "/" + id + "/source"} {
				code, shown, reval, tok := c02CachedGet(cache, st.http.URL, path)
				pcode, plain, perr := st.httpGet(path)
				c.Compared(1)
				if !tok || perr != nil {
					continue
				}
				if reval {
					c.H("cache:revalidated-304")
				}
				if code != pcode || !bytes.Equal(shown, plain) || (pcode == 200 && !bytes.Equal(plain, body)) {
					c.Fail("cached-reader-agrees", append(append([]string{}, trace...), "GET "+path),
						fmt.Sprintf("the revalidating reader shows status %d, %d bytes (answered from its cache after a 304: %v); a plain GET right after gets status %d, %d bytes; the latest delivery has %d bytes%s",
							code, len(shown), reval, pcode, len(plain), len(body), diffAt(shown, plain)), "")
					ok = false
					break
				}
			}
		}
		c.Count(fmt.Sprintf("c02-cache %d", idx), true)
		_ = st.store.PurgeMessages(mb)
		if !ok {
			return
		}
	}
}
