package main

// C09, lin legs "file-scarce" / "file-scarce-cap" (child side helper): concurrent clients that have USED UP THE FILE DESCRIPTORS.
//
// "For every interleaving of concurrent clients": each SMTP / POP3 / REST connection of the server is a descriptor, and so is every file
// the store opens; when many clients are connected an open(2) inside a store operation answers EMFILE now and then — while the other
// goroutines go on.  The histories of these legs are the ordinary lin histories (same plans: 3-4 goroutines x 3-6 operations on 1-2
// mailboxes, start barrier), run while
//   * the soft RLIMIT_NOFILE of the (child) process leaves exactly `Scarce` free descriptors, and
//   * 1-3 further goroutines stand for the connections that come and go: each takes a descriptor (open /dev/null), holds it for
//     1-40 microseconds, releases it, waits 1-40 microseconds, and so on.
// The limit is lifted before the harness looks at the result (the final listings at quiescence).
//
// An operation that answers with EMFILE has FAILED and is dropped from the history; what it may have done before failing (a cap eviction
// carried out, the index of a mailbox's last message unlinked before RemoveAll could not open the directory) is announced by deleted
// events, which enter the history as OPTIONAL removals (`b/` ops, as the size enforcer's evictions do).  The history of the operations that
// COMPLETED must be linearizable against Spec.Store (Lean Wing-Gong checker, driver mode lin) — in particular a completed listing shows
// every delivery that was acknowledged before it began and that nothing removed — and the implementation-only oracles of the lin legs apply
// (delivered-stays: every delivery that returned an id is listed at quiescence unless a deleted event announced it; ids-distinct; cap-bound;
// listed-message-was-delivered; no panic; no error OTHER than EMFILE).

import (
	"fmt"
	"math/rand"
	"os"
	"sync"
	"syscall"
	"time"

	"verif/harness/internal/core"
)

// c09LowestFreeFD: the number the next descriptor of this process will get
func c09LowestFreeFD() (int, error) {
	fd, err := syscall.Open("/dev/null", syscall.O_RDONLY|syscall.O_CLOEXEC, 0)
	if err != nil {
		return 0, err
	}
	syscall.Close(fd)
	return fd, nil
}

// c09Scarcity makes descriptors scarce; the returned function makes them plentiful again (stops the other clients, restores the limit).
func c09Scarcity(sp c09Spec, r *rand.Rand) (func(), error) {
	var orig syscall.Rlimit
	if err := syscall.Getrlimit(syscall.RLIMIT_NOFILE, &orig); err != nil {
		return func() {}, err
	}
	// the runtime's poller (an epoll descriptor and its wake-up descriptor) comes into being with the first file the os package opens:
	// that must have happened while descriptors are plentiful
	if f, err := os.Open("/dev/null"); err == nil {
		f.Close()
	}
	free, err := c09LowestFreeFD()
	if err != nil {
		return func() {}, err
	}
	lim := syscall.Rlimit{Cur: uint64(free + sp.Scarce), Max: orig.Max}
	if lim.Cur > orig.Cur {
		return func() {}, fmt.Errorf("limit %d already below what is asked for", orig.Cur)
	}
	if err := syscall.Setrlimit(syscall.RLIMIT_NOFILE, &lim); err != nil {
		return func() {}, err
	}
	stop := make(chan struct{})
	var wg sync.WaitGroup
	spin := func(d time.Duration) {
		for t0 := time.Now(); time.Since(t0) < d; {
		}
	}
	for k, n := 0, 1+r.Intn(3); k < n; k++ {
		seed := r.Int63()
		wg.Add(1)
		go func() {
			defer wg.Done()
			rr := rand.New(rand.NewSource(seed))
			for {
				select {
				case <-stop:
					return
				default:
				}
				if fd, err := syscall.Open("/dev/null", syscall.O_RDONLY|syscall.O_CLOEXEC, 0); err == nil {
					spin(time.Duration(rr.Intn(40)+1) * time.Microsecond)
					syscall.Close(fd)
				}
				spin(time.Duration(rr.Intn(40)+1) * time.Microsecond)
			}
		}()
	}
	var once sync.Once
	return func() {
		once.Do(func() {
			close(stop)
			wg.Wait()
			syscall.Setrlimit(syscall.RLIMIT_NOFILE, &orig)
		})
	}, nil
}

func init() {
	register("C09SCARCE", func(c *core.Ctx) {
		c.Res.Rule = "the scarce-descriptor lin legs of C09 alone (for the builder's use)"
		c09Legs(c, map[string]bool{"file-scarce": true, "file-scarce-cap": true})
	})
}
