package main

// C16, scheduling leg: removals of ONE message racing each other (explicit deletes, a purge, a retention-style
// visit+remove) on both real stores must still announce that message exactly once.

import (
	"bytes"
	"fmt"
	"io"
	"net/mail"
	"os"
	"path/filepath"
	"sync"
	"time"

	"github.com/inbucket/inbucket/v3/pkg/config"
	"github.com/inbucket/inbucket/v3/pkg/extension"
	"github.com/inbucket/inbucket/v3/pkg/extension/event"
	"github.com/inbucket/inbucket/v3/pkg/message"
	"github.com/inbucket/inbucket/v3/pkg/storage"
	"github.com/inbucket/inbucket/v3/pkg/storage/file"
	"github.com/inbucket/inbucket/v3/pkg/storage/mem"

	"verif/harness/internal/core"
)

func init() {
	prev := extra["C16"]
	extra["C16"] = func(c *core.Ctx) {
		if prev != nil {
			prev(c)
		}
		rounds := c.Scale(150, 3000)
		for _, kind := range []string{"mem", "mem-limit", "file"} {
			host := extension.NewHost()
			var mu sync.Mutex
			deleted := map[string]int{}
			host.Events.AfterMessageDeleted.AddListener("verif", func(m event.MessageMetadata) {
				mu.Lock()
				deleted[m.Mailbox+"/"+m.ID]++
				mu.Unlock()
			})
			var st storage.Store
			var err error
			dir := ""
			switch kind {
			case "mem":
				st, err = mem.New(config.Storage{Params: map[string]string{}}, host)
			case "mem-limit":
				st, err = mem.New(config.Storage{Params: map[string]string{"maxkb": "64"}}, host)
			default:
				dir = filepath.Join(c.Workdir, "c16conc")
				os.MkdirAll(dir, 0o755)
				st, err = file.New(config.Storage{Params: map[string]string{"path": dir}}, host)
			}
			if err != nil {
				c.Note("c16 conc: %v", err)
				continue
			}
			r := c.SubRng("c16conc-" + kind)
			var ids []string
			for i := 0; i < rounds; i++ {
				box := fmt.Sprintf("cbox%d", i%3)
				d := &message.Delivery{Meta: event.MessageMetadata{Mailbox: box, From: &mail.Address{Address: "a@b"}, Date: time.Now(), Subject: "s"},
					Reader: io.NopCloser(bytes.NewReader(make([]byte, 100)))}
				id, err := st.AddMessage(d)
				if err != nil {
					continue
				}
				ids = append(ids, box+"/"+id)
				n := 2 + r.Intn(3)
				purge := r.Intn(5) == 0
				start := make(chan struct{})
				var wg sync.WaitGroup
				for g := 0; g < n; g++ {
					wg.Add(1)
					go func(g int) {
						defer wg.Done()
						<-start
						if purge && g == 0 {
							_ = st.PurgeMessages(box)
						} else {
							_ = st.RemoveMessage(box, id)
						}
					}(g)
				}
				close(start)
				wg.Wait()
				c.Count("c16conc|"+kind+"|"+box+"/"+id, true)
			}
			// let the asynchronous dispatch settle
			deadline := time.Now().Add(2 * time.Second)
			for time.Now().Before(deadline) {
				mu.Lock()
				n := len(deleted)
				mu.Unlock()
				if n >= len(ids) {
					break
				}
				time.Sleep(time.Millisecond)
			}
			time.Sleep(5 * time.Millisecond)
			mu.Lock()
			for _, k := range ids {
				c.Compared(1)
				if deleted[k] != 1 {
					c.Fail("deleted-event-once", []string{"store=" + kind, "message=" + k, "several clients removed / purged this one message at the same moment"},
						fmt.Sprintf("%d deleted events for one removed message", deleted[k]), "")
					break
				}
			}
			mu.Unlock()
			c.H("c16-concurrent-removals:" + kind)
			if dir != "" {
				os.RemoveAll(dir)
			}
		}
	}
}
