package main

// C01 leg "a script that does not redirect" (attached to C01).  The property's exception is an extension that REDIRECTS the message; a script whose
// handlers decline, raise errors or answer with values of the wrong type redirects nothing, so every acknowledged transaction must leave exactly the
// copies it leaves without any script.  The generated Lua scripts of the C17 harness (grammar of broken answers: wrong types, plain tables, runtime
// errors, nil) run on the real luahost under real SMTP sessions; the store is compared with the same dialogue on a server without script, with the
// composed Lean model (driver mode lua), and judged by the SMTP oracles of C01.  Only the oracles that speak about C01 count here.

import (
	"strings"

	"verif/harness/internal/core"
)

func init() {
	prev := extra["C01"]
	extra["C01"] = func(c *core.Ctx) {
		if prev != nil {
			prev(c)
		}
		old := c.Scope
		c.Scope = func(name string) bool {
			for _, p := range []string{"broken-script-is-no-script", "stored-exactly-once", "nothing-else-stored", "content-intact", "lua-store", "no-panic", "script-loads", "no-wedge"} {
				if name == p || strings.HasPrefix(name, p) {
					return true
				}
			}
			return false
		}
		defer func() { c.Scope = old }()
		runLuaSeq(c, luaProfile{name: "c01lbroken", n: [2]int{250, 5000}, errRate: 6, brokenOnly: true})
	}
}
