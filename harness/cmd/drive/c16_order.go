package main

// C16, residual finding F-16c: StoreManager.Deliver emits the `stored` event AFTER Store.AddMessage has returned and
// outside any lock, so another client that removes the message in that window has its `deleted` event emitted first.
// The window is realised deterministically with a Store wrapper that removes the message inside AddMessage's return
// path (exactly what a racing REST DELETE / POP3 QUIT / retention scan does between the two statements).

import (
	"bytes"
	"fmt"
	"net/mail"
	"sync"
	"time"

	"github.com/inbucket/inbucket/v3/pkg/config"
	"github.com/inbucket/inbucket/v3/pkg/extension"
	"github.com/inbucket/inbucket/v3/pkg/extension/event"
	"github.com/inbucket/inbucket/v3/pkg/message"
	"github.com/inbucket/inbucket/v3/pkg/policy"
	"github.com/inbucket/inbucket/v3/pkg/storage"
	"github.com/inbucket/inbucket/v3/pkg/storage/mem"

	"verif/harness/internal/core"
)

type racingRemover struct {
	storage.Store
}

func (r racingRemover) AddMessage(m storage.Message) (string, error) {
	id, err := r.Store.AddMessage(m)
	if err == nil {
		_ = r.Store.RemoveMessage(m.Mailbox(), id) // the other client wins the race
	}
	return id, err
}

func init() {
	prev := extra["C16"]
	extra["C16"] = func(c *core.Ctx) {
		if prev != nil {
			prev(c)
		}
		host := extension.NewHost()
		var mu sync.Mutex
		var order []string
		host.Events.AfterMessageStored.AddListener("verif", func(m event.MessageMetadata) {
			mu.Lock()
			order = append(order, "stored:"+m.ID)
			mu.Unlock()
		})
		host.Events.AfterMessageDeleted.AddListener("verif", func(m event.MessageMetadata) {
			mu.Lock()
			order = append(order, "deleted:"+m.ID)
			mu.Unlock()
		})
		st, err := mem.New(config.Storage{Params: map[string]string{}}, host)
		if err != nil {
			c.Note("F-16c replay: %v", err)
			return
		}
		root := &config.Root{MailboxNaming: config.LocalNaming}
		root.SMTP.DefaultAccept, root.SMTP.DefaultStore = true, true
		ap := &policy.Addressing{Config: root}
		mgr := &message.StoreManager{AddrPolicy: ap, Store: racingRemover{st}, ExtHost: host}
		rc, err := ap.NewRecipient("box@example.com")
		if err != nil {
			c.Note("F-16c replay: %v", err)
			return
		}
		org, _ := ap.ParseOrigin("from@example.com")
		_ = mail.Address{}
		if err := mgr.Deliver(org, []*policy.Recipient{rc}, "Received: from x ([y]) by z\r\n", []byte("Subject: s\r\n\r\nbody\r\n")); err != nil {
			c.Note("F-16c replay: Deliver: %v", err)
			return
		}
		deadline := time.Now().Add(2 * time.Second)
		for time.Now().Before(deadline) {
			mu.Lock()
			n := len(order)
			mu.Unlock()
			if n >= 2 {
				break
			}
			time.Sleep(time.Millisecond)
		}
		mu.Lock()
		got := append([]string{}, order...)
		mu.Unlock()
		c.Compared(1)
		c.Count("F-16c-replay", true)
		if len(got) == 2 && got[0] == "deleted:1" && got[1] == "stored:1" {
			if c.IsOpen("F-16c") {
				c.KnownStillFails("F-16c")
			} else {
				c.Fail("stored-before-deleted", []string{"Deliver to box@example.com while another client removes the new id between AddMessage returning and the stored event being emitted"},
					fmt.Sprintf("listener saw %v", got), "F-16c")
			}
		} else if !(len(got) == 2 && got[0] == "stored:1" && got[1] == "deleted:1") {
			c.Fail("events-exact", []string{"F-16c replay"}, fmt.Sprintf("unexpected event sequence %v", got), "")
		}
		_ = bytes.MinRead
		// second witness of the same root cause, no second client needed: with a store byte limit a message larger
		// than the limit is evicted by the size enforcer INSIDE AddMessage (its deleted event is emitted there), and
		// Deliver emits its stored event afterwards.
		host2 := extension.NewHost()
		var mu2 sync.Mutex
		var order2 []string
		host2.Events.AfterMessageStored.AddListener("verif", func(m event.MessageMetadata) {
			mu2.Lock()
			order2 = append(order2, "stored:"+m.ID)
			mu2.Unlock()
		})
		host2.Events.AfterMessageDeleted.AddListener("verif", func(m event.MessageMetadata) {
			mu2.Lock()
			order2 = append(order2, "deleted:"+m.ID)
			mu2.Unlock()
		})
		st2, err := mem.New(config.Storage{Params: map[string]string{"maxkb": "1"}}, host2)
		if err != nil {
			return
		}
		mgr2 := &message.StoreManager{AddrPolicy: ap, Store: st2, ExtHost: host2}
		big := append([]byte("Subject: big\r\n\r\n"), bytes.Repeat([]byte("x"), 2000)...)
		if err := mgr2.Deliver(org, []*policy.Recipient{rc}, "Received: from x ([y]) by z\r\n", big); err != nil {
			c.Note("F-16c replay 2: Deliver: %v", err)
			return
		}
		deadline = time.Now().Add(2 * time.Second)
		for time.Now().Before(deadline) {
			mu2.Lock()
			n := len(order2)
			mu2.Unlock()
			if n >= 2 {
				break
			}
			time.Sleep(time.Millisecond)
		}
		mu2.Lock()
		got2 := append([]string{}, order2...)
		mu2.Unlock()
		c.Compared(1)
		c.Count("F-16c-replay-self-eviction", true)
		if len(got2) == 2 && got2[0] == "deleted:1" && got2[1] == "stored:1" {
			if c.IsOpen("F-16c") {
				c.KnownStillFails("F-16c")
			} else {
				c.Fail("stored-before-deleted", []string{"memory store with maxkb=1; Deliver a 2 KB message to box@example.com (it is evicted at once by the size limit)"},
					fmt.Sprintf("listener saw %v", got2), "F-16c")
			}
		} else if !(len(got2) == 2 && got2[0] == "stored:1" && got2[1] == "deleted:1") {
			c.Fail("events-exact", []string{"F-16c replay 2 (self-eviction)"}, fmt.Sprintf("unexpected event sequence %v", got2), "")
		}
	}
}
