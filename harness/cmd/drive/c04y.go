package main

// C04, end-to-end leg, part 2: every REST v1 handler that takes {name} from the URL, driven with an address
// (not the canonical name): show / source / mark-seen / delete / purge must reach the mailbox the mail went to.
// Implementation-only oracle "e2e-rest-by-address".

import (
	"fmt"
	"net/http"
	"net/http/httptest"
	"strings"

	"github.com/inbucket/inbucket/v3/pkg/policy"
	"github.com/inbucket/inbucket/v3/pkg/rest"
	"github.com/inbucket/inbucket/v3/pkg/server/web"
)

type restHandler func(w http.ResponseWriter, req *http.Request, ctx *web.Context) error

// restCall runs one handler with {name} = x (and {id}); returns status code, body, error text ("" = none).
func (w *c04World) restCall(h restHandler, method, x, id, body string) (code int, out string, detail string) {
	defer func() {
		if p := recover(); p != nil {
			detail = fmt.Sprintf("panic: %v", p)
		}
	}()
	rec := httptest.NewRecorder()
	req := httptest.NewRequest(method, "/api/v1/mailbox/x", strings.NewReader(body))
	ctx := &web.Context{Vars: map[string]string{"name": x, "id": id}, Manager: w.mgr, RootConfig: w.ap.Config, IsJSON: true}
	if err := h(rec, req, ctx); err != nil {
		return rec.Code, rec.Body.String(), err.Error()
	}
	return rec.Code, rec.Body.String(), ""
}

// c04RestSweep: the store holds exactly one message (subject) in mailbox rc.Mailbox; x is a spelling of the address
// that RCPT accepts.  Returns "" or what went wrong.
func (w *c04World) c04RestSweep(rc *policy.Recipient, x, subject string) string {
	metas, err := w.mgr.GetMetadata(rc.Mailbox)
	if err != nil || len(metas) != 1 {
		return fmt.Sprintf("GetMetadata(%q): %d messages, %v", rc.Mailbox, len(metas), err)
	}
	id := metas[0].ID
	if code, out, d := w.restCall(rest.MailboxShowV1, "GET", x, id, ""); d != "" || code != 200 || !strings.Contains(out, subject) {
		return fmt.Sprintf("MailboxShowV1(name=%q): code %d, err %q", x, code, d)
	}
	if code, out, d := w.restCall(rest.MailboxSourceV1, "GET", x, id, ""); d != "" || code != 200 || !strings.Contains(out, subject) {
		return fmt.Sprintf("MailboxSourceV1(name=%q): code %d, err %q", x, code, d)
	}
	if code, _, d := w.restCall(rest.MailboxMarkSeenV1, "PATCH", x, id, `{"seen":true}`); d != "" || code != 200 {
		return fmt.Sprintf("MailboxMarkSeenV1(name=%q): code %d, err %q", x, code, d)
	}
	if metas, err = w.mgr.GetMetadata(rc.Mailbox); err != nil || len(metas) != 1 || !metas[0].Seen {
		return fmt.Sprintf("MailboxMarkSeenV1(name=%q) did not mark the message in %q", x, rc.Mailbox)
	}
	if code, _, d := w.restCall(rest.MailboxDeleteV1, "DELETE", x, id, ""); d != "" || code != 200 {
		return fmt.Sprintf("MailboxDeleteV1(name=%q): code %d, err %q", x, code, d)
	}
	if shape := w.storeShape(); len(shape) != 0 {
		return fmt.Sprintf("MailboxDeleteV1(name=%q) left %s", x, strings.Join(shape, " "))
	}
	if err := w.deliver(rc, subject+"-2"); err != nil {
		return "second Deliver failed: " + err.Error()
	}
	if code, _, d := w.restCall(rest.MailboxPurgeV1, "DELETE", x, "", ""); d != "" || code != 200 {
		return fmt.Sprintf("MailboxPurgeV1(name=%q): code %d, err %q", x, code, d)
	}
	if shape := w.storeShape(); len(shape) != 0 {
		return fmt.Sprintf("MailboxPurgeV1(name=%q) left %s", x, strings.Join(shape, " "))
	}
	return ""
}
