// Package core: shared machinery of the correspondence harness (model driver pipe, PRNG,
// coverage accounting, result file).
package core

import (
	"bufio"
	"crypto/sha1"
	"encoding/hex"
	"encoding/json"
	"fmt"
	"io"
	"math/rand"
	"os"
	"os/exec"
	"sort"
	"strings"
	"sync"
	"time"
)

// Model is one running instance of the compiled Lean driver (line in, line out).
type Model struct {
	cmd *exec.Cmd
	in  *bufio.Writer
	out *bufio.Reader
	wc  io.WriteCloser
	mu  sync.Mutex
}

func StartModel(path string, mode ...string) (*Model, error) {
	cmd := exec.Command(path, mode...)
	wc, err := cmd.StdinPipe()
	if err != nil {
		return nil, err
	}
	rc, err := cmd.StdoutPipe()
	if err != nil {
		return nil, err
	}
	cmd.Stderr = os.Stderr
	if err := cmd.Start(); err != nil {
		return nil, err
	}
	return &Model{cmd: cmd, in: bufio.NewWriterSize(wc, 1<<16), out: bufio.NewReaderSize(rc, 1<<16), wc: wc}, nil
}

// Ask sends one line and returns the model's one-line answer.
func (m *Model) Ask(line string) string {
	m.mu.Lock()
	defer m.mu.Unlock()
	m.in.WriteString(line)
	m.in.WriteByte('\n')
	if err := m.in.Flush(); err != nil {
		return "model-dead: " + err.Error()
	}
	s, err := m.out.ReadString('\n')
	if err != nil {
		return "model-dead: " + err.Error()
	}
	return strings.TrimRight(s, "\n")
}

// AskAll sends a batch and returns the answers (pipelined through a goroutine to avoid pipe deadlock).
func (m *Model) AskAll(lines []string) []string {
	m.mu.Lock()
	defer m.mu.Unlock()
	res := make([]string, len(lines))
	done := make(chan struct{})
	go func() {
		for i := range lines {
			s, err := m.out.ReadString('\n')
			if err != nil {
				for j := i; j < len(lines); j++ {
					res[j] = "model-dead"
				}
				break
			}
			res[i] = strings.TrimRight(s, "\n")
		}
		close(done)
	}()
	for _, l := range lines {
		m.in.WriteString(l)
		m.in.WriteByte('\n')
	}
	m.in.Flush()
	<-done
	return res
}

func (m *Model) Close() {
	m.wc.Close()
	m.cmd.Wait()
}

func Hex(b []byte) string {
	if len(b) == 0 {
		return "-"
	}
	return hex.EncodeToString(b)
}

func HexS(s string) string { return Hex([]byte(s)) }

func HexList(ss []string) string {
	if len(ss) == 0 {
		return "_"
	}
	p := make([]string, len(ss))
	for i, s := range ss {
		p[i] = HexS(s)
	}
	return strings.Join(p, ",")
}

func UnHex(s string) string {
	if s == "-" {
		return ""
	}
	b, err := hex.DecodeString(s)
	if err != nil {
		return "?bad-hex?"
	}
	return string(b)
}

// Divergence: model and implementation disagree on one case of one correspondence.
type Divergence struct {
	Corr  string   `json:"corr"`
	Case  []string `json:"case"`
	Impl  string   `json:"impl"`
	Model string   `json:"model"`
	Note  string   `json:"note,omitempty"`
}

// OracleFailure: the property itself observed to fail on the implementation (no model involved).
type OracleFailure struct {
	Oracle string   `json:"oracle"`
	Case   []string `json:"case"`
	Detail string   `json:"detail"`
	Known  string   `json:"known,omitempty"` // id of the open known finding that covers it
}

type KnownHit struct {
	ID   string `json:"id"`
	What string `json:"what"`
}

// Result is what cmd/drive writes for ./check.
type Result struct {
	Property    string           `json:"property"`
	Tier        string           `json:"tier"`
	Seed        int64            `json:"seed"`
	Evaluations int64            `json:"evaluations"`
	Distinct    int64            `json:"distinct_nontrivial"`
	Compared    int64            `json:"traces_validated_against_impl"`
	Rule        string           `json:"rule"`
	Hist        map[string]int64 `json:"histogram"`
	Samples     []interface{}    `json:"samples"`
	Divergences []Divergence     `json:"divergences"`
	Failures    []OracleFailure  `json:"oracle_failures"`
	KnownHits   []KnownHit       `json:"known_findings_hit"`
	Notes       []string         `json:"notes"`
	WallS       float64          `json:"wall_s"`
	Exhaustive  bool             `json:"exhaustive"`
}

// Known finding entry of /verif/known_findings.json
type KnownFinding struct {
	Property string          `json:"property"`
	ID       string          `json:"id"`
	Status   string          `json:"status"`
	Commit   string          `json:"commit,omitempty"`
	What     string          `json:"what"`
	Witness  json.RawMessage `json:"witness,omitempty"`
	Match    json.RawMessage `json:"match,omitempty"`
}

// Ctx is handed to each property runner.
type Ctx struct {
	Prop     string
	Tier     string
	Seed     int64
	DrvPath  string
	Rng      *rand.Rand
	Res      *Result
	Known    map[string]KnownFinding // open findings of this property, by id
	Workdir  string
	Replay   string // path of a replay file, or ""
	// Scope, when set, says which oracles / correspondences speak about THIS property: a composed leg (system, assembly) run under a
	// property's check observes many properties at once; what is out of scope is counted in the histogram and noted, not reported
	Scope    func(name string) bool
	mu       sync.Mutex
	distinct map[[20]byte]struct{}
	start    time.Time
	maxKeep  int
}

func NewCtx(prop, tier string, seed int64, drv, workdir string) *Ctx {
	c := &Ctx{Prop: prop, Tier: tier, Seed: seed, DrvPath: drv, Workdir: workdir,
		Rng:      rand.New(rand.NewSource(seed)),
		Res:      &Result{Property: prop, Tier: tier, Seed: seed, Hist: map[string]int64{}},
		Known:    map[string]KnownFinding{},
		distinct: map[[20]byte]struct{}{}, start: time.Now(), maxKeep: 20}
	return c
}

func (c *Ctx) Thorough() bool { return c.Tier == "thorough" }

// Scale returns q in the quick tier and t in the thorough tier.
func (c *Ctx) Scale(q, t int) int {
	if c.Thorough() {
		return t
	}
	return q
}

// NewModel starts a model driver; mode selects the model area ("pure" if omitted).
func (c *Ctx) NewModel(mode ...string) *Model {
	m, err := StartModel(c.DrvPath, mode...)
	if err != nil {
		fmt.Fprintln(os.Stderr, "cannot start model driver:", err)
		os.Exit(2)
	}
	return m
}

// SubRng derives an independent PRNG from the seed and a label (stable across runs).
func (c *Ctx) SubRng(label string) *rand.Rand {
	h := sha1.Sum([]byte(fmt.Sprintf("%d/%s", c.Seed, label)))
	var s int64
	for i := 0; i < 8; i++ {
		s = s<<8 | int64(h[i])
	}
	return rand.New(rand.NewSource(s))
}

// Count records one evaluated case; key identifies it for distinctness; nontrivial by the property's rule.
func (c *Ctx) Count(key string, nontrivial bool) {
	c.mu.Lock()
	c.Res.Evaluations++
	if nontrivial {
		h := sha1.Sum([]byte(key))
		if _, ok := c.distinct[h]; !ok {
			c.distinct[h] = struct{}{}
			c.Res.Distinct++
		}
	}
	c.mu.Unlock()
}

func (c *Ctx) Compared(n int) {
	c.mu.Lock()
	c.Res.Compared += int64(n)
	c.mu.Unlock()
}

func (c *Ctx) H(bucket string) {
	c.mu.Lock()
	c.Res.Hist[bucket]++
	c.mu.Unlock()
}

func (c *Ctx) Sample(s interface{}) {
	c.mu.Lock()
	if len(c.Res.Samples) < 12 {
		c.Res.Samples = append(c.Res.Samples, s)
	}
	c.mu.Unlock()
}

func (c *Ctx) Note(format string, a ...interface{}) {
	c.mu.Lock()
	c.Res.Notes = append(c.Res.Notes, fmt.Sprintf(format, a...))
	c.mu.Unlock()
}

// InScope: does a failure of this oracle / correspondence count for the property being checked?
func (c *Ctx) InScope(name string) bool {
	if c.Scope == nil || c.Scope(name) {
		return true
	}
	c.mu.Lock()
	c.Res.Hist["other-property:"+name]++
	first := c.Res.Hist["other-property:"+name] == 1
	c.mu.Unlock()
	if first {
		c.Note("a composed leg saw %q fail; it speaks about another property and is reported by that property's check", name)
	}
	return false
}

func (c *Ctx) Diverge(corr string, cas []string, impl, model string) {
	if !c.InScope(corr) {
		return
	}
	c.mu.Lock()
	c.Res.Hist["divergence:"+corr]++
	if len(c.Res.Divergences) < c.maxKeep {
		c.Res.Divergences = append(c.Res.Divergences, Divergence{Corr: corr, Case: cas, Impl: impl, Model: model})
	}
	c.mu.Unlock()
}

// Fail records a property failure observed on the implementation.  known = id of an open finding whose
// predicate the witness satisfies ("" if none).
func (c *Ctx) Fail(oracle string, cas []string, detail, known string) {
	if !c.InScope(oracle) {
		return
	}
	c.mu.Lock()
	if known != "" {
		if _, open := c.Known[known]; !open {
			known = ""
		}
	}
	c.Res.Hist["oracle-fail:"+oracle]++
	n := 0
	for _, f := range c.Res.Failures {
		if f.Oracle == oracle && f.Known == known {
			n++
		}
	}
	if n < 5 {
		c.Res.Failures = append(c.Res.Failures, OracleFailure{Oracle: oracle, Case: cas, Detail: detail, Known: known})
	}
	c.mu.Unlock()
}

// Enough reports that the run already holds plenty of unexplained failures (not instances of listed findings) of one kind: a generating loop
// may stop early instead of spending a deadline on each of the remaining cases (a wedged server costs one time-out per case).
func (c *Ctx) Enough() bool {
	c.mu.Lock()
	defer c.mu.Unlock()
	n := map[string]int{}
	for _, f := range c.Res.Failures {
		if f.Known == "" {
			n[f.Oracle]++
			if n[f.Oracle] >= 5 {
				return true
			}
		}
	}
	return len(c.Res.Divergences) >= c.maxKeep && c.maxKeep > 0
}

// KnownStillFails records that an open known finding's stored witness still fails on this tree.
func (c *Ctx) KnownStillFails(id string) {
	c.mu.Lock()
	if k, ok := c.Known[id]; ok {
		c.Res.KnownHits = append(c.Res.KnownHits, KnownHit{ID: id, What: k.What})
	}
	c.mu.Unlock()
}

func (c *Ctx) IsOpen(id string) bool { _, ok := c.Known[id]; return ok }

func (c *Ctx) Finish(out string) {
	c.Res.WallS = time.Since(c.start).Seconds()
	sort.Slice(c.Res.KnownHits, func(i, j int) bool { return c.Res.KnownHits[i].ID < c.Res.KnownHits[j].ID })
	b, _ := json.MarshalIndent(c.Res, "", " ")
	if out == "" {
		os.Stdout.Write(b)
		return
	}
	os.WriteFile(out, b, 0o644)
}

func LoadKnown(path, prop string) map[string]KnownFinding {
	res := map[string]KnownFinding{}
	b, err := os.ReadFile(path)
	if err != nil {
		return res
	}
	var all []KnownFinding
	if err := json.Unmarshal(b, &all); err != nil {
		fmt.Fprintln(os.Stderr, "known_findings.json unreadable:", err)
		os.Exit(2)
	}
	for _, k := range all {
		if k.Property == prop && k.Status == "open" {
			res[k.ID] = k
		}
	}
	return res
}

// Parallel runs f(shard) for shard in [0,n) on up to `workers` goroutines.
func Parallel(n, workers int, f func(shard int)) {
	if workers < 1 {
		workers = 1
	}
	ch := make(chan int)
	var wg sync.WaitGroup
	for w := 0; w < workers; w++ {
		wg.Add(1)
		go func() {
			defer wg.Done()
			for i := range ch {
				f(i)
			}
		}()
	}
	for i := 0; i < n; i++ {
		ch <- i
	}
	close(ch)
	wg.Wait()
}
