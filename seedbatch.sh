#!/bin/sh
# seedbatch.sh <round> <PROP:n[:checks,...]> ... : confirm and try several seeded changes, 3 at a time; one summary line each
r="$1"; shift
for a in "$@"; do echo "$a"; done | xargs -P 3 -I{} sh -c '
  a="{}"; p=${a%%:*}; rest=${a#*:}; n=${rest%%:*}; cks=$(echo "${rest#*:}" | tr "," " "); [ "$cks" = "$n" ] && cks="$p"
  python3 /verif/seedck.py $p r'"$r"':$n $cks > /tmp/seedck/log-$p-r'"$r"'m$n.txt 2>&1
  echo "$p-r'"$r"'m$n: $(grep -c "^CONFIRMED" /tmp/seedck/log-$p-r'"$r"'m$n.txt) confirmed; $(tail -1 /tmp/seedck/log-$p-r'"$r"'m$n.txt)"'
