#!/bin/sh
# merge_agent.sh <name>: bring a builder's NEW files into /verif, list files it changed (for manual merge) and its /repo changes
n="$1"; src=/tmp/ag/$n/verif; rp=/tmp/ag/$n/repo
EX="--exclude .lake --exclude .build --exclude evidence --exclude replays --exclude lean/Ibx/Gen --exclude __pycache__ --exclude harness/go.sum --exclude harness/go.mod --exclude MANIFEST.json"
echo "== new files"; rsync -a --ignore-existing -v $EX "$src/" /verif/ | grep -v '/$' | grep -v '^sending\|^sent\|^total\|^$'
echo "== changed existing files (manual)"; rsync -a -n -c -v $EX "$src/" /verif/ | grep -v '/$' | grep -v '^sending\|^sent\|^total\|^$'
echo "== repo worktree status"; git -C "$rp" status --short; git -C "$rp" log --oneline -3 | cat
ls /tmp/ag/$n/*.patch 2>/dev/null
