#!/usr/bin/env python3
"""
mkseeder.py <PROP> <round>   prepare the scratch worktree and print the prompt for an independent seeding sub-agent.

The sub-agent gets ONLY: the property record (properties.jsonl), a scratch git worktree of /repo under /tmp/mut/<PROP>/wt<round>,
an output directory /tmp/mut/<PROP>/out<round>, and one-line titles of the changes other agents already produced for this
property (so that it writes something different in kind).  Nothing about /verif's checks, models or oracles.
"""
import glob, json, os, subprocess, sys

prop, rnd = sys.argv[1], sys.argv[2]
focus = sys.argv[3] if len(sys.argv) > 3 else ""
rec = [json.loads(l) for l in open("/verif/properties.jsonl") if json.loads(l)["id"] == prop][0]
base = "/tmp/mut/%s" % prop
wt, out = "%s/wt%s" % (base, rnd), "%s/out%s" % (base, rnd)
os.makedirs(out, exist_ok=True)
subprocess.run(["git", "-C", "/repo", "worktree", "remove", "--force", wt], stdout=subprocess.DEVNULL, stderr=subprocess.DEVNULL)
subprocess.run(["rm", "-rf", wt])
subprocess.check_call(["git", "-C", "/repo", "worktree", "add", "-q", "--detach", wt, "HEAD"])
prev = []
for d in sorted(glob.glob("/verif/seeded/%s-*" % prop)):
    try:
        prev.append("- " + json.load(open(d + "/meta.json"))["title"])
    except Exception:
        pass
P = """You are helping to test a verification effort for the Go project inbucket (a disposable-email test server: SMTP + POP3 servers, file and in-memory mailbox stores, REST/WebSocket API, Lua hooks).  Your job is to play the part of a developer who introduces a REALISTIC, SUBTLE regression.

Work ONLY inside your own scratch git worktree of the repository: %(wt)s  (never touch /repo or /verif, never commit).
Environment for every shell call (no network in this sandbox): export GOFLAGS=-mod=mod GOPROXY=off GOSUMDB=off GOTOOLCHAIN=local
Build: go build ./...     Existing test suite: go test -mod=mod -vet=off -count=1 ./...   (takes a few minutes; must stay green)

THE PROPERTY (this is all you are given; find and read the code yourself):
%(rec)s

TASK.  Produce TWO independent changes (m1, m2) to inbucket's non-test Go code, each of which
  * still compiles and still passes the whole existing test suite, unedited;
  * breaks the property above — but only when something SPECIFIC happens: a particular interleaving, a crash or fault at a particular point, a multi-step sequence of operations, an unusual input or configuration, or two cooperating sites that each look fine alone.  NOT something ordinary use would expose at once (a change after which every delivery fails is useless);
  * looks like something a maintainer could plausibly write (a refactoring, an optimisation, a 'simplification', a half-finished feature, a well-meant fix with a side effect), small (typically 3-40 changed lines), without tell-tale comments;
  * may touch any non-test file of the repository (glue code, configuration, helpers, the code the property is anchored in, or a neighbouring package whose behaviour the property relies on).  Files named verif_*.go and lines calling verifStep(...) are test instrumentation: leave them alone and do not rely on them.
%(focus)s
Changes other people already wrote for this property (make yours DIFFERENT IN KIND from all of these — another file, another mechanism, another trigger):
%(prev)s

For each change write a DEMONSTRATION: a Go test file (name it zz_demo_<n>_test.go, test function TestZZDemo<n>...) placed in one package directory of the repository, which FAILS with the change applied and PASSES on the unchanged tree, and which demonstrates the violation of the PROPERTY as stated (through observable behaviour), not merely that the code differs.  The demonstration must be deterministic (or fail with overwhelming probability within a few seconds) and must not need the network beyond localhost.

DELIVERABLES, for n = 1, 2, in %(out)s/m<n>/ :
  patch.diff        `git diff` of the change only (without the demo file), applying with `git apply` to the unchanged worktree
  demo/zz_demo_<n>_test.go   and   demo/README.txt  containing the exact command, in the form:  go test -mod=mod -vet=off -count=1 -run TestZZDemo<n> ./pkg/<dir>/   and what it shows
  meta.json         {"title": one line saying what the change does, "breaks": which clause of the property it breaks and how, "needs": what exactly is needed for it to manifest and what keeps behaving as before, "files": [changed files], "ran": [the commands you ran and their outcomes]}

Before you finish, VERIFY all of this yourself, for each change separately starting from the clean worktree (git checkout -- . && git clean -fd): (1) patch applies, go build ./... ok, the WHOLE suite passes with the patch (without the demo file); (2) with patch + demo file the demo FAILS; (3) without the patch the demo PASSES.  Leave the worktree clean at the end (git checkout -- . && git clean -fd).  Your final answer: two short paragraphs (one per change) and the verification outcomes.
""" % dict(wt=wt, out=out, rec=json.dumps(rec, indent=1), prev="\n".join(prev) or "- (none)", focus=("\nEMPHASIS for this round: " + focus + "\n") if focus else "")
open("%s/prompt%s.txt" % (base, rnd), "w").write(P)
print(P)
